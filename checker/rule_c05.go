package main

// C05 — every blocking operation honours its timeout.

import (
	"fmt"
	"go/constant"
	"go/token"
	"go/types"
	"sort"
	"strings"

	"golang.org/x/tools/go/ssa"
)

var specTimeoutOpOptions = map[string][]string{
	"WithTimeoutOps": {"channel.OperationOptions.Timeout<-param0", "netconf.OperationOptions.Timeout<-param0"},
}

func init() {
	register(&Property{
		ID:  "C05",
		Run: runC05,
		Explanation: "Structural timeout discipline, valid for every stall point because loops and call sites, not executions, are enumerated. " +
			"loops-cancellable: every condition-less loop of the library has an exit governed by a select on ctx.Done(), a ctx.Err() test, a receive on the owner's done channel (the two reader loops), the error of a context-bounded or self-bounded call, a counter bound, or a socket read deadline. " +
			"deadline-source: each blocking operation builds its context/timer from GetTimeout(op.Timeout) (send-input, interactive, RPC) or the connection-wide TimeoutOps (get-prompt, both authentications, capabilities) or its timeout parameter (callbacks), and every context-taking call below it receives that context, never a fresh Background; GetTimeout's decision table is exactly {-1 -> connection-wide, 0 -> MaxTimeout, else -> argument}. " +
			"timeout-class: the deadline branch of each operation returns an error wrapping ErrTimeoutError; a failed implicit privilege change is wrapped in ErrPrivilegeError. " +
			"no-read-after-return: the spawner's only exits follow an unconditional receive from the worker's result channel and the worker performs no device I/O after it sent (so a timed-out operation cannot consume later output). closed-result-nil (K7): where a worker closes its result channel and has a path to the close without a send, every dereference of the received value is nil-guarded; closed-result-zero: a non-pointer result of such a worker is examined, or the worker's send-less exits are reachable only after the spawner's own deferred cancel. " +
			"NOT decided: wall-clock slack; a transport Write that blocks; recovery of the next exchange after a stall (value-level).",
		Assumptions: []string{"context and timer semantics of the standard library", "Channel.Read is non-blocking (it polls the queue), which is checked under C20/non-blocking-empty"},
		Mutants: []Mutant{
			{ID: "C05-priv-class-printed-not-wrapped", Desc: "SendCommand prints the privilege sentinel with %s and wraps the cause instead", Rule: "C05/error-classes",
				Edits: []Edit{{File: "driver/network/sendcommand.go", Old: "\t\t\t\t\"%w: failed acquiring default desired privilege level\",\n\t\t\t\tutil.ErrPrivilegeError,\n", New: "\t\t\t\t\"%s: failed acquiring default desired privilege level: %w\",\n\t\t\t\tutil.ErrPrivilegeError,\n\t\t\t\terr,\n"}}},
			{ID: "C05-prompt-wait-backoff", Desc: "ReadUntilPrompt doubles its idle sleep up to a second", Rule: "C05/poll-interval",
				Edits: []Edit{{File: "channel/read.go", Old: "func (c *Channel) ReadUntilPrompt(ctx context.Context) ([]byte, error) {\n\tvar rb []byte\n", New: "func (c *Channel) ReadUntilPrompt(ctx context.Context) ([]byte, error) {\n\tvar rb []byte\n\n\tidle := c.ReadDelay\n"},
					{File: "channel/read.go", Old: "\t\tif nb == nil {\n\t\t\ttime.Sleep(c.ReadDelay)\n\n\t\t\tcontinue\n\t\t}\n\n\t\trb = append(rb, nb...)\n\n\t\tif c.PromptPattern.Match(processReadBuf(rb, c.PromptSearchDepth)) {", New: "\t\tif nb == nil {\n\t\t\ttime.Sleep(idle)\n\n\t\t\tif idle < time.Second {\n\t\t\t\tidle *= 2\n\t\t\t}\n\n\t\t\tcontinue\n\t\t}\n\n\t\trb = append(rb, nb...)\n\n\t\tif c.PromptPattern.Match(processReadBuf(rb, c.PromptSearchDepth)) {"}}},
			{ID: "C05-subscription-zero-options", Desc: "reverse of the fix: establish-subscription sent with zero-value operation options", Rule: "C05/operation-constructed",
				Edits: []Edit{{File: "driver/netconf/subscription.go", Old: "\tr, err := d.sendRPC(m, op)\n", New: "\t_ = op\n\n\tr, err := d.sendRPC(m, &OperationOptions{})\n"}}},
			{ID: "C05-no-ctx-case", Desc: "ctx.Done case removed from ReadUntilExplicit", Rule: "C05/loops-cancellable",
				Edits: []Edit{{File: "channel/read.go", Old: "func (c *Channel) ReadUntilExplicit(ctx context.Context, b []byte) ([]byte, error) {\n\tvar rb []byte\n\n\tfor {\n\t\tselect {\n\t\tcase <-ctx.Done():\n\t\t\treturn nil, ctx.Err()\n\t\tdefault:\n\t\t}\n", New: "func (c *Channel) ReadUntilExplicit(ctx context.Context, b []byte) ([]byte, error) {\n\tvar rb []byte\n\n\t_ = ctx\n\n\tfor {\n"}}},
			{ID: "C05-gettimeout-zero", Desc: "GetTimeout(0) returns the connection-wide timeout", Rule: "C05/gettimeout-table",
				Edits: []Edit{{File: "channel/channel.go", Old: "\tif t == 0 {\n\t\treturn util.MaxTimeout * time.Second\n\t}", New: "\tif t == 0 {\n\t\treturn c.TimeoutOps\n\t}"}}},
			{ID: "C05-interactive-ignores-op-timeout", Desc: "SendInteractive ignores the per-operation timeout", Rule: "C05/deadline-source",
				Edits: []Edit{{File: "channel/sendinteractive.go", Old: "ctx, cancel := context.WithTimeout(context.Background(), c.GetTimeout(op.Timeout))\n\n\tdefer cancel()\n\n\tgo c.sendInteractive", New: "ctx, cancel := context.WithTimeout(context.Background(), c.TimeoutOps)\n\n\tdefer cancel()\n\n\tgo c.sendInteractive"}}},
			{ID: "C05-fresh-background", Desc: "final prompt read uses a fresh background context", Rule: "C05/deadline-source",
				Edits: []Edit{{File: "channel/sendinput.go", Old: "nb, readErr = c.ReadUntilPrompt(ctx)", New: "nb, readErr = c.ReadUntilPrompt(context.Background())"}}},
			{ID: "C05-timeout-as-plain-error", Desc: "GetPrompt returns the raw deadline error", Rule: "C05/timeout-class",
				Edits: []Edit{{File: "channel/getprompt.go", Old: "\t\tif errors.Is(r.err, context.DeadlineExceeded) {", New: "\t\tif errors.Is(r.err, context.Canceled) {"}}},
			{ID: "C05-rpc-timer-conn-wide", Desc: "RPC timer ignores the per-operation timeout", Rule: "C05/deadline-source",
				Edits: []Edit{{File: "driver/netconf/rpc.go", Old: "timer := time.NewTimer(d.Channel.GetTimeout(op.Timeout))", New: "timer := time.NewTimer(d.Channel.TimeoutOps)"}}},
			{ID: "C05-priv-error-class", Desc: "failed implicit acquire reported as a timeout", Rule: "C05/timeout-class",
				Edits: []Edit{{File: "driver/network/sendcommand.go", Old: "\t\t\t\tutil.ErrPrivilegeError,", New: "\t\t\t\tutil.ErrTimeoutError,"}}},
			{ID: "C05-worker-reads-after-send", Desc: "send-input worker drains the queue after handing over its result", Rule: "C05/no-read-after-return",
				Edits: []Edit{{File: "channel/sendinput.go", Old: "\t\tcr <- &result{\n\t\t\tb:   c.processOut(b, op.StripPrompt),\n\t\t\terr: nil,\n\t\t}\n", New: "\t\tcr <- &result{\n\t\t\tb:   c.processOut(b, op.StripPrompt),\n\t\t\terr: nil,\n\t\t}\n\n\t\t_, _ = c.ReadAll()\n"}}},
			{ID: "C05-callbacks-nil-deref", Desc: "nil result of the closed worker channel dereferenced again", Rule: "C05/closed-result-nil",
				Edits: []Edit{{File: "driver/generic/sendwithcallbacks.go", Old: "\t\tif r == nil {\n\t\t\t// the worker saw the deadline first and closed its channel without a result\n\t\t\treturn nil, fmt.Errorf(\"%w: timeout handling callbacks\", util.ErrTimeoutError)\n\t\t}\n\n", New: ""}}},
			{ID: "C05-callbacks-return-early", Desc: "SendWithCallbacks returns on timeout without waiting for its reader", Rule: "C05/no-read-after-return",
				Edits: []Edit{{File: "driver/generic/sendwithcallbacks.go", Old: "\t\t<-c\n\n\t\treturn nil, fmt.Errorf(\"%w: timeout handling callbacks\", util.ErrTimeoutError)", New: "\t\treturn nil, fmt.Errorf(\"%w: timeout handling callbacks\", util.ErrTimeoutError)"}}},
			{ID: "C05-chain-cut", Desc: "interactive worker wraps the echo-read error with %v", Rule: "C05/deadline-chain",
				Edits: []Edit{{File: "channel/sendinteractive.go", Old: "\t\t\tnb, err = readUntilF(ctx, []byte(e.ChannelInput))\n\t\t\tif err != nil {\n\t\t\t\tcr <- &result{b: nil, err: err}", New: "\t\t\tnb, err = readUntilF(ctx, []byte(e.ChannelInput))\n\t\t\tif err != nil {\n\t\t\t\tcr <- &result{b: nil, err: fmt.Errorf(\"event %d: %v\", i, err)}"}}},
			{ID: "C05-rpc-poller-conn-wide", Desc: "RPC poller bounded by the connection-wide timeout", Rule: "C05/deadline-source",
				Edits: []Edit{{File: "driver/netconf/rpc.go", Old: "ctx, cancel := context.WithCancel(context.Background())", New: "ctx, cancel := context.WithTimeout(context.Background(), d.Channel.TimeoutOps)"}}},
			{ID: "C05-deadline-behind-idle-branch", Desc: "ReadUntilExplicit looks at its context only after a chunk arrived", Rule: "C05/deadline-every-pass",
				Edits: []Edit{{File: "channel/read.go", Old: "func (c *Channel) ReadUntilExplicit(ctx context.Context, b []byte) ([]byte, error) {\n\tvar rb []byte\n\n\tfor {\n\t\tselect {\n\t\tcase <-ctx.Done():\n\t\t\treturn nil, ctx.Err()\n\t\tdefault:\n\t\t}\n", New: "func (c *Channel) ReadUntilExplicit(ctx context.Context, b []byte) ([]byte, error) {\n\tvar rb []byte\n\n\tfor {\n"},
					{File: "channel/read.go", Old: "\t\t\tb,\n\t\t) {\n\t\t\treturn rb, nil\n\t\t}\n\t}\n}", New: "\t\t\tb,\n\t\t) {\n\t\t\treturn rb, nil\n\t\t}\n\n\t\tselect {\n\t\tcase <-ctx.Done():\n\t\t\treturn nil, ctx.Err()\n\t\tdefault:\n\t\t}\n\t}\n}"}}},
			{ID: "C05-rpc-poller-own-deadline", Desc: "RPC poller's context carries the operation deadline itself: it can close the result channel unanswered while sendRPC still waits", Rule: "C05/closed-result-zero",
				Edits: []Edit{{File: "driver/netconf/rpc.go", Old: "ctx, cancel := context.WithCancel(context.Background())", New: "ctx, cancel := context.WithTimeout(context.Background(), d.Channel.GetTimeout(op.Timeout))"}}},
			{ID: "C05-driver-closes-again", Desc: "generic Open closes the channel again when Channel.Open failed", Rule: "C05/no-double-close",
				Edits: []Edit{{File: "driver/generic/driver.go", Old: "\terr := d.Channel.Open()\n\tif err != nil {\n\t\treturn err\n\t}", New: "\terr := d.Channel.Open()\n\tif err != nil {\n\t\t_ = d.Channel.Close()\n\n\t\treturn err\n\t}"}}},
			{ID: "C05-zero-override-dropped", Desc: "per-operation timeout option ignores zero and negative values", Rule: "C05/options",
				Edits: []Edit{{File: "driver/opoptions/channel.go", Old: "func WithTimeoutOps(t time.Duration) util.Option {\n\treturn func(o interface{}) error {\n", New: "func WithTimeoutOps(t time.Duration) util.Option {\n\treturn func(o interface{}) error {\n\t\tif t <= 0 {\n\t\t\treturn nil\n\t\t}\n\n"}}},
			{ID: "C05-auth-timer-removed", Desc: "telnet authentication waits for the worker without a timer", Rule: "C05/deadline-source",
				Edits: []Edit{{File: "channel/auth.go", Old: "\tt := time.NewTimer(c.TimeoutOps)\n\n\tselect {\n\tcase r := <-cr:\n\t\treturn r.b, r.err\n\tcase <-t.C:\n\t\tc.l.Critical(\"channel timeout during in channel telnet authentication\")\n\n\t\treturn nil, fmt.Errorf(\n\t\t\t\"%w: channel timeout during in channel telnet authentication\",\n\t\t\tutil.ErrTimeoutError,\n\t\t)\n\t}", New: "\tr := <-cr\n\n\treturn r.b, r.err"}}},
		},
	})
}

type loopInfo struct {
	Fn     *ssa.Function
	Header *ssa.BasicBlock
	Blocks map[*ssa.BasicBlock]bool
}

func condlessLoops(fn *ssa.Function) []loopInfo {
	var out []loopInfo
	for _, b := range fn.Blocks {
		isHeader := false
		for _, p := range b.Preds {
			if b.Dominates(p) {
				isHeader = true
			}
		}
		// `for {` loops have the body as header; `for cond {` / three-clause loops have the condition block
		if !isHeader || (b.Comment != "for.body" && b.Comment != "for.loop") {
			continue
		}
		out = append(out, loopInfo{Fn: fn, Header: b, Blocks: loopBlocks(b)})
	}
	return out
}

func isContextType(t types.Type) bool {
	n, ok := t.(*types.Named)
	return ok && n.Obj().Pkg() != nil && n.Obj().Pkg().Path() == "context" && n.Obj().Name() == "Context"
}

// ctxOrigin: where does a context value come from? "param", "captured", "with-timeout", "background", "other"
func ctxOrigin(v ssa.Value, depth int) (string, ssa.Value) {
	if depth > 8 {
		return "other", v
	}
	switch x := v.(type) {
	case *ssa.Parameter:
		return "param", x
	case *ssa.FreeVar:
		if b := freeVarBinding(x); b != nil {
			k, src := ctxOrigin(b, depth+1)
			if k == "with-timeout" || k == "param" {
				return k, src
			}
			return k, src
		}
		return "captured", x
	case *ssa.Extract:
		if call, ok := x.Tuple.(*ssa.Call); ok {
			if o := CalleeObj(call); o != nil && o.Pkg() != nil && o.Pkg().Path() == "context" {
				switch o.Name() {
				case "WithTimeout", "WithDeadline", "WithCancel":
					return "with-timeout", call
				}
			}
		}
	case *ssa.Call:
		if o := CalleeObj(x); o != nil && o.Pkg() != nil && o.Pkg().Path() == "context" && (o.Name() == "Background" || o.Name() == "TODO") {
			return "background", x
		}
	case *ssa.UnOp:
		if x.Op == token.MUL {
			switch a := x.X.(type) {
			case *ssa.Alloc:
				for _, ref := range *a.Referrers() {
					if st, ok := ref.(*ssa.Store); ok && st.Addr == ssa.Value(a) {
						return ctxOrigin(st.Val, depth+1)
					}
				}
			case *ssa.FreeVar:
				if b := freeVarBinding(a); b != nil {
					if al, ok := b.(*ssa.Alloc); ok {
						for _, ref := range *al.Referrers() {
							if st, ok := ref.(*ssa.Store); ok && st.Addr == ssa.Value(al) {
								return ctxOrigin(st.Val, depth+1)
							}
						}
					}
				}
			}
		}
	case *ssa.MakeInterface:
		return ctxOrigin(x.X, depth+1)
	case *ssa.ChangeInterface:
		return ctxOrigin(x.X, depth+1)
	}
	return "other", v
}

func hasCtxParam(fn *ssa.Function) bool {
	for _, p := range fn.Params {
		if isContextType(p.Type()) {
			return true
		}
	}
	return false
}

// selfBounded: the function creates its own deadline (context.WithTimeout/WithDeadline, time.NewTimer/After).
func selfBounded(fn *ssa.Function) bool {
	found := false
	for _, f := range append([]*ssa.Function{fn}, AnonFuncsDeep(fn)...) {
		for _, ci := range callInstrs(f) {
			if o := CalleeObj(ci); o != nil && o.Pkg() != nil {
				switch o.Pkg().Path() + "." + o.Name() {
				case "context.WithTimeout", "context.WithDeadline", "time.NewTimer", "time.After":
					found = true
				}
			}
		}
	}
	return found
}

func runC05(c *Ctx, r *Report) {
	importFoundation(c, r, "C05", "driver-options")
	importFoundation(c, r, "C05", "read-until")
	importFoundation(c, r, "C05", "send-input")
	importFoundation(c, r, "C05", "get-prompt")
	r.Rule("C05/poll-interval", "every sleep inside a polling loop of the channel and the drivers lasts a configured or constant delay, never an interval that grows from one pass to the next (the deadline is only looked at between sleeps)", 4)
	checkPollInterval(c, r, "C05/poll-interval")
	importFoundation(c, r, "C05", "callbacks")
	importFoundation(c, r, "C05", "open-cleanup")
	importFoundation(c, r, "C05", "priv-steps")
	importFoundation(c, r, "C05", "netconf-reader")
	r.Rule("C05/get-prompt-once", "the generic driver's GetPrompt asks the channel once (a retry on timeout doubles the time the caller waits)", 1)
	checkGenericGetPromptPassthrough(c, r, "C05/get-prompt-once")
	r.Rule("C05/operation-constructed", "operation options are only built by their package's NewOperation (whose defaults include Timeout -1 = connection-wide): a struct literal elsewhere has Timeout 0 = maximum", 4)
	checkOperationConstructed(c, r, "C05/operation-constructed")
	r.Rule("C05/options", "the per-operation timeout option stores exactly the duration it is given (zero and negative values included: 0 means maximum, -1 the connection-wide value) into the channel / NETCONF operation options", 2)
	{
		only := map[string]bool{"WithTimeoutOps": true}
		sub := NewReport("C05")
		checkOptionTable(c, sub, "C05x", "driver/opoptions", specTimeoutOpOptions, only)
		for _, o := range sub.Obs {
			construct := strings.TrimPrefix(o.Key, o.Rule+" @ ")
			r.add("C05/options", construct+" ("+strings.TrimPrefix(o.Rule, "C05x/")+")", o.Status, o.Pos, o.Msg, nil)
		}
	}
	r.Rule("C05/no-double-close", "a driver Open does not close the channel again on the failing edge of Channel.Open (which closed it already; Close is not idempotent)", 2)
	checkNoDoubleChannelClose(c, r, "C05/no-double-close")
	r.Rule("C05/search-window", "prompt / response searches look at a suffix of the buffer that starts on a line boundary (else a line tail that looks like a prompt ends the operation early: success with partial output)", 4)
	importObligations(r, func(sub *Report) { checkSearchDepth(c, sub) }, "C01/search-depth", "C05/search-window")
	r.Rule("C05/fresh-operation", "channel.NewOperation and netconf.NewOperation hand every caller a freshly allocated options object (it carries the per-operation timeout)", 2)
	checkFreshOperation(c, r, "C05/fresh-operation", []string{"channel", "driver/netconf"})
	r.Rule("C05/error-classes", "each failure site named by the property wraps the sentinel the property names (timeout / auth / connection / privilege / NETCONF / operation / platform error)", 6)
	checkErrorClasses(c, r, "C05")
	r.Rule("C05/loops-cancellable", "every condition-less loop has an exit governed by ctx.Done/ctx.Err, the owner's done channel, the error of a bounded call, a counter bound or a socket read deadline", 6)
	r.Rule("C05/gettimeout-table", "GetTimeout: -1 -> connection-wide, 0 -> MaxTimeout, else -> the argument", 3)
	r.Rule("C05/deadline-source", "each blocking operation derives its context/timer from the specified timeout and passes that context to every context-taking call below it", 6)
	r.Rule("C05/timeout-class", "deadline branches return ErrTimeoutError; a failed implicit privilege change returns ErrPrivilegeError", 5)
	r.Rule("C05/deadline-chain", "context-bounded readers and workers hand errors on unwrapped or wrapped with %w, so the operation's errors.Is(err, DeadlineExceeded) sees an expired deadline", 1)
	r.Rule("C05/op-options-applied", "channel.NewOperation and netconf.NewOperation apply the full per-operation option list (the per-operation timeout) in order", 2)
	r.Rule("C05/opts-forwarded", "every operation of the channel and of the three drivers hands its full per-operation option list (which carries the per-operation timeout) to each option-taking library callee", 8)
	r.Rule("C05/no-read-after-return", "spawner exits only after an unconditional receive of the worker's result; the worker performs no device I/O after sending", 4)
	r.Rule("C05/closed-result-nil", "a value received from a result channel that its worker may close without sending is nil-checked before use", 1)
	r.Rule("C05/closed-result-zero", "a non-pointer value received from a result channel that its worker may close without sending is examined before use, or the worker leaves without sending only once the spawner's own cancel-only context is over (an expired operation returns the timeout error, never an empty success)", 1)

	checkLoopsCancellable(c, r)
	checkGetTimeoutTable(c, r)
	checkDeadlineSources(c, r)
	checkTimeoutClasses(c, r)
	checkDeadlineChain(c, r)
	checkOptsForwarded(c, r, "C05/opts-forwarded", [][2]string{{"channel", "Channel"}, {"driver/generic", "Driver"}, {"driver/network", "Driver"}, {"driver/netconf", "Driver"}})
	checkOperationApplyLoop(c, r, "C05/op-options-applied", "channel")
	checkOperationApplyLoop(c, r, "C05/op-options-applied", "driver/netconf")
	checkNoReadAfterReturn(c, r)
	checkClosedResultNil(c, r)
	checkClosedResultZero(c, r, "C05/closed-result-zero")
	r.Rule("C05/deadline-every-pass", "in each read-until loop every cycle from one Channel.Read to the next passes the context check (also the cycle taken while nothing arrives)", 4)
	checkDeadlineEveryPass(c, r, "C05/deadline-every-pass")
	r.Rule("C05/id-allocation", "(restated from C08) a timed-out RPC does not hand its message-id back: the late reply to it can never be taken for the reply to the next request", 1)
	importObligations(r, func(sub *Report) { runC08(c, sub) }, "C08/id-allocation", "C05/id-allocation")
	r.Rule("C05/netconf-deadline-resolved", "every deadline the NETCONF driver sets up takes its duration from Channel.GetTimeout (zero = maximum holds for the hello exchange as for every RPC)", 2)
	checkNetconfDeadlinesResolved(c, r, "C05/netconf-deadline-resolved")
}

// ---- loops ------------------------------------------------------------------------------------

func checkLoopsCancellable(c *Ctx, r *Report) {
	rule := "C05/loops-cancellable"
	sawNamed := false
	for _, fn := range c.LibFns {
		for _, b := range fn.Blocks {
			if b.Comment == "for.body" || b.Comment == "for.loop" {
				sawNamed = true
			}
		}
	}
	if !sawNamed {
		r.Unk(rule, "loop discovery", "-", "no for.body/for.loop blocks found: the SSA builder's block naming changed, condition-less loops cannot be identified")
		return
	}
	for _, fn := range c.LibFns {
		if fn.Pkg != nil && strings.HasSuffix(fn.Pkg.Pkg.Path(), "/util") && (strings.Contains(fn.Name(), "Test") || strings.Contains(fnName(fn), "testclean")) {
			continue
		}
		loops := condlessLoops(fn)
		for i, lp := range loops {
			if !loopWaits(c, lp) {
				// a loop over data already in memory (or a local file): nothing in it waits for the device
				continue
			}
			construct := fmt.Sprintf("%s loop#%d", shortFn(fn), i+1)
			var reasons []string
			var others []string
			for _, from := range sortedBlocks(lp.Blocks) {
				for si, to := range from.Succs {
					if lp.Blocks[to] {
						continue
					}
					why := classifyLoopExit(c, fn, lp, from, si)
					if why != "" {
						reasons = append(reasons, why)
					} else {
						others = append(others, fmt.Sprintf("block %d", from.Index))
					}
				}
			}
			sort.Strings(reasons)
			if len(reasons) > 0 {
				r.OK(rule, construct, c.Pos(firstPos(lp.Header)), "exit governed by: "+strings.Join(uniq(reasons), ", "))
			} else {
				r.Bad(rule, construct, c.Pos(firstPos(lp.Header)), fmt.Sprintf("the condition-less loop has no exit governed by a deadline/cancellation, done channel, bounded call or counter (exits: %v): when the device goes silent the operation never returns", others))
			}
		}
	}
}

// loopWaits: something inside the loop waits: a sleep, a select, a channel receive, or a call that reaches a read
// from the channel queue or the transport.
func loopWaits(c *Ctx, lp loopInfo) bool {
	targets := []*ssa.Function{
		c.LookupFunc("transport", "Transport", "read"),
		c.LookupFunc("channel", "Channel", "Read"),
		c.LookupFunc("channel", "Channel", "ReadAll"),
	}
	for b := range lp.Blocks {
		for _, in := range b.Instrs {
			switch x := in.(type) {
			case *ssa.Select:
				return true
			case *ssa.UnOp:
				if x.Op == token.ARROW {
					return true
				}
			case *ssa.Call:
				if o := CalleeObj(x); o != nil && o.Pkg() != nil && o.Pkg().Path() == "time" && o.Name() == "Sleep" {
					return true
				}
				// a read through an interface (net.Conn, io.Reader, a transport implementation)
				if x.Call.IsInvoke() && (x.Call.Method.Name() == "Read" || x.Call.Method.Name() == "ReadFrom" || x.Call.Method.Name() == "Accept") {
					return true
				}
				if sc := x.Call.StaticCallee(); sc != nil {
					for _, t := range targets {
						if t != nil && (sc == t || c.reachesFn(sc, t)) {
							return true
						}
					}
				}
			}
		}
	}
	return false
}

func sortedBlocks(m map[*ssa.BasicBlock]bool) []*ssa.BasicBlock {
	var out []*ssa.BasicBlock
	for b := range m {
		out = append(out, b)
	}
	sort.Slice(out, func(i, j int) bool { return out[i].Index < out[j].Index })
	return out
}

func uniq(s []string) []string {
	var out []string
	for i, x := range s {
		if i == 0 || x != s[i-1] {
			out = append(out, x)
		}
	}
	return out
}

// classifyLoopExit: why does control leave the loop on edge from->Succs[si]? "" if not an accepted reason.
func classifyLoopExit(c *Ctx, fn *ssa.Function, lp loopInfo, from *ssa.BasicBlock, si int) string {
	cond := ifCond(from)
	if cond == nil {
		// unconditional jump out of the loop: governed by the conditions that dominate `from`
		for _, ec := range edgeConds(from) {
			if w := classifyCond(c, fn, lp, ec.Cond, ec.Truth); w != "" {
				// the governing If must be inside the loop
				return w
			}
		}
		// a select.body block entered from the header
		return ""
	}
	truth := si == 0
	if w := classifyCond(c, fn, lp, cond, truth); w != "" {
		return w
	}
	return ""
}

func classifyCond(c *Ctx, fn *ssa.Function, lp loopInfo, cond ssa.Value, truth bool) string {
	v, neg := unwrapNot(cond)
	if neg {
		truth = !truth
	}
	// select case
	if bo, ok := v.(*ssa.BinOp); ok && bo.Op == token.EQL && truth {
		if ex, ok := bo.X.(*ssa.Extract); ok && ex.Index == 0 {
			if sel, ok := ex.Tuple.(*ssa.Select); ok && lp.Blocks[sel.Block()] {
				if k, ok := constInt(bo.Y); ok && int(k) < len(sel.States) {
					st := sel.States[k]
					if st.Dir == types.RecvOnly {
						if call, ok := st.Chan.(*ssa.Call); ok && call.Call.IsInvoke() && call.Call.Method.Name() == "Done" && isContextType(call.Call.Value.Type()) {
							if org, _ := ctxOrigin(call.Call.Value, 0); org != "background" {
								return "select on ctx.Done()"
							}
						}
						if f, _, _ := chanOrigin(st.Chan); f != nil && f.Name() == "done" {
							return "receive on the owner's done channel"
						}
					}
				}
			}
		}
	}
	// the same poll moved into a helper: `if c.isDone() { return }`
	if call, ok := v.(*ssa.Call); ok && truth && lp.Blocks[call.Block()] {
		if f, isCtx, ok := pollHelper(call.Call.StaticCallee()); ok {
			if isCtx {
				return "select on ctx.Done()"
			}
			if f != nil && f.Name() == "done" {
				return "receive on the owner's done channel"
			}
		}
	}
	// nil test on an error
	if x, nonNilOnTrue, ok := nilCheck(v); ok && nonNilOnTrue == truth {
		// ctx.Err()
		if call, ok := x.(*ssa.Call); ok && call.Call.IsInvoke() && call.Call.Method.Name() == "Err" && isContextType(call.Call.Value.Type()) && lp.Blocks[call.Block()] {
			return "ctx.Err() test"
		}
		// error of a call inside the loop
		var call *ssa.Call
		if ex, ok := x.(*ssa.Extract); ok {
			call, _ = ex.Tuple.(*ssa.Call)
		} else if cl, ok := x.(*ssa.Call); ok {
			call = cl
		} else if phi, ok := x.(*ssa.Phi); ok {
			// merged error variable: all incoming non-nil edges must be bounded calls; accept if every call edge is
			all := true
			n := 0
			for _, e := range phi.Edges {
				if isNilConst(e) {
					continue
				}
				var cl *ssa.Call
				if ex, ok := e.(*ssa.Extract); ok {
					cl, _ = ex.Tuple.(*ssa.Call)
				} else if c2, ok := e.(*ssa.Call); ok {
					cl = c2
				}
				if cl == nil || boundedCall(c, cl) == "" {
					all = false
				}
				n++
			}
			if all && n > 0 {
				return "error of bounded calls"
			}
		}
		if call != nil && lp.Blocks[call.Block()] {
			if w := boundedCall(c, call); w != "" {
				return w
			}
			// socket read with a deadline set in the same loop
			if call.Call.IsInvoke() && call.Call.Method.Name() == "Read" {
				for b := range lp.Blocks {
					for _, in := range b.Instrs {
						if ci, ok := in.(*ssa.Call); ok && ci.Call.IsInvoke() && ci.Call.Method.Name() == "SetReadDeadline" && sameFieldValue(ci.Call.Value, call.Call.Value) && dominatesInstr(ci, call) {
							return "socket read deadline"
						}
					}
				}
			}
		}
	}
	// counter bound: comparison of a value derived from a loop phi (incremented in the loop) with anything
	if bo, ok := v.(*ssa.BinOp); ok {
		switch bo.Op {
		case token.GTR, token.GEQ, token.LSS, token.LEQ:
			for _, side := range []ssa.Value{bo.X, bo.Y} {
				if isLoopCounter(side, lp) {
					return "counter bound"
				}
			}
		}
	}
	return ""
}

func isLoopCounter(v ssa.Value, lp loopInfo) bool {
	for i := 0; i < 3; i++ {
		if bo, ok := v.(*ssa.BinOp); ok && bo.Op == token.ADD {
			if _, ok := constInt(bo.Y); ok {
				v = bo.X
				continue
			}
		}
		break
	}
	phi, ok := v.(*ssa.Phi)
	if !ok || phi.Block() != lp.Header {
		return false
	}
	for _, e := range phi.Edges {
		if bo, ok := e.(*ssa.BinOp); ok && bo.Op == token.ADD && bo.X == ssa.Value(phi) {
			if k, ok := constInt(bo.Y); ok && k > 0 {
				return true
			}
		}
	}
	return false
}

// boundedCall: the call is to a function that takes the caller's context (not Background) or creates its own deadline.
func boundedCall(c *Ctx, call *ssa.Call) string {
	callees := c.Callees(call)
	if len(callees) == 0 {
		return ""
	}
	for _, callee := range callees {
		if callee.Blocks == nil {
			return ""
		}
		if hasCtxParam(callee) {
			okArg := false
			for _, a := range call.Call.Args {
				if isContextType(a.Type()) {
					if org, _ := ctxOrigin(a, 0); org != "background" {
						okArg = true
					}
				}
			}
			if !okArg {
				return ""
			}
			continue
		}
		if !selfBounded(callee) && !transitivelySelfBounded(c, callee, 0, map[*ssa.Function]bool{}) {
			return ""
		}
	}
	return "error of a bounded call (" + describeCall(c, call) + ")"
}

// transitivelySelfBounded: every I/O path below fn goes through a self-bounded function (depth-limited).
func transitivelySelfBounded(c *Ctx, fn *ssa.Function, depth int, seen map[*ssa.Function]bool) bool {
	if selfBounded(fn) {
		return true
	}
	if depth > 4 || seen[fn] {
		return false
	}
	seen[fn] = true
	io := c.ioCapable()
	any := false
	for _, ci := range callInstrs(fn) {
		for _, callee := range c.Callees(ci) {
			if !io[callee] {
				continue
			}
			any = true
			if !transitivelySelfBounded(c, callee, depth+1, seen) {
				return false
			}
		}
	}
	return any
}

// ---- GetTimeout ---------------------------------------------------------------------------------

func checkGetTimeoutTable(c *Ctx, r *Report) {
	rule := "C05/gettimeout-table"
	fn := c.LookupFunc("channel", "Channel", "GetTimeout")
	maxT := c.LookupConst("util", "MaxTimeout")
	if fn == nil || maxT == nil || len(fn.Params) != 2 {
		r.Anchor(rule, "(*channel.Channel).GetTimeout / util.MaxTimeout")
		return
	}
	recv := "param:" + fn.Params[0].Name()
	tk := "param:" + fn.Params[1].Name()
	maxSec, _ := constant.Int64Val(maxT.Val())
	cells := []struct {
		name string
		val  int64
		want string
	}{
		{"t=-1", -1, recv + ".TimeoutOps"},
		{"t=0", 0, fmt.Sprint(maxSec * 1_000_000_000)},
		{"t=5s", 5_000_000_000, tk},
	}
	for _, cell := range cells {
		paths := EnumeratePaths(c, fn, &dtConfig{Preset: map[string]constant.Value{tk: constant.MakeInt64(cell.val)}})
		if len(paths) != 1 || paths[0].Undecided != "" || len(paths[0].Returns) != 1 {
			r.Unk(rule, "GetTimeout "+cell.name, c.Pos(fn.Pos()), "cannot enumerate GetTimeout for this cell")
			continue
		}
		got := paths[0].Returns[0]
		if cell.val > 0 && got == fmt.Sprint(cell.val) {
			got = tk // constant-propagated preset: the argument itself
		}
		r.Check(got == cell.want, rule, "GetTimeout "+cell.name, c.Pos(fn.Pos()), "returns "+got,
			fmt.Sprintf("GetTimeout(%s) returns %s, specified %s", cell.name, got, cell.want))
	}
}

// ---- deadline sources ---------------------------------------------------------------------------

type deadlineSpec struct {
	pkg, recv, name string
	kind            string // "op-timeout", "conn-wide", "param:<i>"
}

func checkDeadlineSources(c *Ctx, r *Report) {
	rule := "C05/deadline-source"
	getTimeout := c.LookupFunc("channel", "Channel", "GetTimeout")
	timeoutOps := c.LookupField("channel", "Channel", "TimeoutOps")
	if getTimeout == nil || timeoutOps == nil {
		r.Anchor(rule, "(*channel.Channel).GetTimeout / TimeoutOps")
		return
	}
	specs := []deadlineSpec{
		{"channel", "Channel", "SendInputB", "op-timeout"},
		{"channel", "Channel", "SendInteractive", "op-timeout"},
		{"channel", "Channel", "GetPrompt", "conn-wide"},
		{"channel", "Channel", "AuthenticateSSH", "conn-wide"},
		{"channel", "Channel", "AuthenticateTelnet", "conn-wide"},
		{"driver/netconf", "Driver", "sendRPC", "op-timeout"},
		{"driver/netconf", "Driver", "getServerCapabilities", "conn-wide"},
		{"driver/generic", "Driver", "handleCallbacks", "param"},
	}
	isOpTimeout := func(v ssa.Value) bool {
		v = singleStoreValue(v)
		call, ok := v.(*ssa.Call)
		if !ok || call.Call.StaticCallee() != getTimeout || len(call.Call.Args) != 2 {
			return false
		}
		f, _, ok := fieldLoad(call.Call.Args[1])
		return ok && f.Name() == "Timeout"
	}
	isConnWide := func(v ssa.Value) bool {
		v = singleStoreValue(v)
		if f, _, ok := fieldLoad(v); ok && f == timeoutOps {
			return true
		}
		// GetTimeout(TimeoutOps) is the connection-wide value as well
		if call, ok := v.(*ssa.Call); ok && call.Call.StaticCallee() == getTimeout && len(call.Call.Args) == 2 {
			if f, _, ok := fieldLoad(call.Call.Args[1]); ok && f == timeoutOps {
				return true
			}
		}
		return false
	}
	for _, sp := range specs {
		fn := c.LookupFunc(sp.pkg, sp.recv, sp.name)
		if fn == nil {
			r.Anchor(rule, sp.pkg+"."+sp.recv+"."+sp.name)
			continue
		}
		construct := shortFn(fn) + " deadline"
		// find the deadline constructors (in the operation and its closures): every one of them bounds part of the
		// operation, so every one must be derived from the specified timeout
		var dl *ssa.Call
		var kind string
		var all []*ssa.Call
		own := map[*ssa.Function]bool{fn: true}
		bodies := []*ssa.Function{fn}
		for _, h := range tailHelpers(fn) {
			// the wait (timer + select) moved into a helper whose results the operation returns as they are
			own[h] = true
			bodies = append(bodies, h)
		}
		var scanFns []*ssa.Function
		for _, b := range bodies {
			scanFns = append(scanFns, b)
			scanFns = append(scanFns, AnonFuncsDeep(b)...)
		}
		for _, f := range scanFns {
			for _, ci := range callInstrs(f) {
				call, ok := ci.(*ssa.Call)
				if !ok {
					continue
				}
				if o := CalleeObj(call); o != nil && o.Pkg() != nil {
					switch o.Pkg().Path() + "." + o.Name() {
					case "context.WithTimeout":
						all = append(all, call)
						if own[f] {
							dl, kind = call, "ctx"
						}
					case "time.NewTimer", "time.After":
						all = append(all, call)
						if own[f] {
							dl, kind = call, "timer"
						}
					}
				}
			}
		}
		if dl == nil {
			r.Bad(rule, construct, c.Pos(fn.Pos()), "the operation creates no deadline (context.WithTimeout / time.NewTimer): if the device stops sending, it waits forever")
			continue
		}
		okAll := true
		for _, d := range all {
			dur := d.Call.Args[len(d.Call.Args)-1]
			okDur := false
			switch sp.kind {
			case "op-timeout":
				okDur = isOpTimeout(dur)
			case "conn-wide":
				okDur = isConnWide(dur)
			case "param":
				_, okDur = dur.(*ssa.Parameter)
			}
			if !okDur {
				okAll = false
				r.Bad(rule, construct, c.Pos(d.Pos()), fmt.Sprintf("a deadline of the operation is not derived from the specified timeout (%s) but from %s: when the two differ (a per-operation timeout longer or shorter than the connection-wide one) part of the operation is cut short or outlives its bound", sp.kind, dur.String()))
			}
		}
		if okAll {
			r.OK(rule, construct, c.Pos(dl.Pos()), fmt.Sprintf("%s (%d deadline constructor(s))", sp.kind, len(all)))
		}
		// the wait: for timers, the spawner selects on the timer channel; for ctx, ctx reaches every ctx-taking call
		if kind == "timer" {
			waits := false
			allInstrs(dl.Parent(), func(in ssa.Instruction) {
				if sel, ok := in.(*ssa.Select); ok && sel.Blocking {
					for _, st := range sel.States {
						if f, base, ok := fieldLoad(st.Chan); ok && f.Name() == "C" && base == ssa.Value(dl) {
							waits = true
						}
						if st.Chan == ssa.Value(dl) {
							waits = true
						}
					}
				}
			})
			r.Check(waits, rule, shortFn(fn)+" waits on its timer", c.Pos(dl.Pos()), "select includes the timer", "the timer is created but the operation does not wait on it")
		}
		// context propagation in fn and its closures / spawned functions
		scope := append([]*ssa.Function{fn}, AnonFuncsDeep(fn)...)
		for _, ci := range callInstrs(fn) {
			if g, ok := ci.(*ssa.Go); ok {
				if sc := g.Call.StaticCallee(); sc != nil && sc.Blocks != nil && sc.Parent() == nil {
					scope = append(scope, sc)
				}
			}
		}
		n := 0
		for _, f := range scope {
			for _, ci := range callInstrs(f) {
				cc := ci.Common()
				for _, a := range cc.Args {
					if !isContextType(a.Type()) {
						continue
					}
					if o := CalleeObj(ci); o != nil && o.Pkg() != nil && o.Pkg().Path() == "context" {
						continue // WithTimeout(Background, ...) itself
					}
					n++
					org, src := ctxOrigin(a, 0)
					cons := fmt.Sprintf("%s ctx arg of %s#%d", shortFn(fn), describeCall(c, ci), n)
					switch {
					case org == "with-timeout" && (kind != "ctx" || src == ssa.Value(dl)):
						r.OK(rule, cons, c.Pos(ci.Pos()), "the operation's own context")
					case org == "param" && f != fn:
						// parameter of a spawned function: bound at the go statement (checked there)
						r.OK(rule, cons, c.Pos(ci.Pos()), "context parameter of the worker")
					case org == "with-timeout" && kind == "ctx" && !ctxDerivedFrom(src, dl):
						r.Bad(rule, cons, c.Pos(ci.Pos()), "this wait is bounded by a second, independent deadline (a fresh context not derived from the operation's own): the phases' bounds add up, so a device that is slow in one phase and silent in the next keeps the operation for up to twice its timeout")
					case org == "with-timeout":
						r.OK(rule, cons, c.Pos(ci.Pos()), "a derived context")
					default:
						r.Bad(rule, cons, c.Pos(ci.Pos()), fmt.Sprintf("a context-taking call below the operation does not receive the operation's deadline context (%s): that wait is not bounded by the operation's timeout", org))
					}
				}
			}
		}
	}
}

// singleStoreValue looks through a local cell that is stored exactly once (a variable captured by a closure).
func singleStoreValue(v ssa.Value) ssa.Value {
	for i := 0; i < 4; i++ {
		u, ok := v.(*ssa.UnOp)
		if !ok || u.Op != token.MUL {
			return v
		}
		var cell ssa.Value = u.X
		if fv, ok := cell.(*ssa.FreeVar); ok {
			if b := freeVarBinding(fv); b != nil {
				cell = b
			}
		}
		a, ok := cell.(*ssa.Alloc)
		if !ok {
			return v
		}
		var stored ssa.Value
		n := 0
		for _, ref := range *a.Referrers() {
			if st, ok := ref.(*ssa.Store); ok && st.Addr == ssa.Value(a) {
				stored = st.Val
				n++
			}
		}
		if n != 1 {
			return v
		}
		v = stored
	}
	return v
}

// ctxDerivedFrom: the WithTimeout/WithCancel call src takes (transitively) the context produced by root as parent.
func ctxDerivedFrom(src ssa.Value, root *ssa.Call) bool {
	for i := 0; i < 6; i++ {
		call, ok := src.(*ssa.Call)
		if !ok {
			return false
		}
		if call == root {
			return true
		}
		if len(call.Call.Args) == 0 {
			return false
		}
		_, parent := ctxOrigin(call.Call.Args[0], 0)
		if parent == nil || parent == src {
			return false
		}
		src = parent
	}
	return false
}

// ---- timeout classes ------------------------------------------------------------------------------

func retWrapsOnBlock(b *ssa.BasicBlock, errName string) bool {
	n := len(b.Instrs)
	if n == 0 {
		return false
	}
	ret, ok := b.Instrs[n-1].(*ssa.Return)
	if !ok || len(ret.Results) == 0 {
		return false
	}
	for _, cl := range returnErrClasses(ret.Results[len(ret.Results)-1], 0) {
		if cl.wraps != nil && cl.wraps.Name() == errName {
			return true
		}
	}
	return false
}

// resultHelpers: unexported functions of fn's package whose results fn returns as they are (return h(...)).
func resultHelpers(fn *ssa.Function) []*ssa.Function {
	var out []*ssa.Function
	seen := map[*ssa.Function]bool{}
	allInstrs(fn, func(in ssa.Instruction) {
		ret, ok := in.(*ssa.Return)
		if !ok {
			return
		}
		for _, rv := range ret.Results {
			var call *ssa.Call
			// results of a function with defers are spilled to cells and loaded for the return
			if u, isU := rv.(*ssa.UnOp); isU {
				if a, isA := u.X.(*ssa.Alloc); isA {
					if v := lastStoreBefore(a, u); v != nil {
						rv = v
					}
				}
			}
			switch x := rv.(type) {
			case *ssa.Extract:
				call, _ = x.Tuple.(*ssa.Call)
			case *ssa.Call:
				call = x
			}
			if call == nil {
				continue
			}
			h := call.Call.StaticCallee()
			if h != nil && !seen[h] && h.Pkg == fn.Pkg && h.Object() != nil && !h.Object().Exported() && len(h.Blocks) > 0 {
				seen[h] = true
				out = append(out, h)
			}
		}
	})
	return out
}

func checkTimeoutClasses(c *Ctx, r *Report) {
	rule := "C05/timeout-class"
	// (a) errors.Is(x, context.DeadlineExceeded) true edge -> ErrTimeoutError
	for _, sp := range [][3]string{{"channel", "Channel", "SendInputB"}, {"channel", "Channel", "SendInteractive"}, {"channel", "Channel", "GetPrompt"}, {"driver/netconf", "Driver", "getServerCapabilities"}} {
		fn := c.LookupFunc(sp[0], sp[1], sp[2])
		if fn == nil {
			r.Anchor(rule, sp[0]+"."+sp[1]+"."+sp[2])
			continue
		}
		ok := false
		// the mapping may live in the operation or in a helper of its package whose results the operation returns
		var blocks []*ssa.BasicBlock
		blocks = append(blocks, fn.Blocks...)
		for _, h := range resultHelpers(fn) {
			blocks = append(blocks, h.Blocks...)
		}
		for _, b := range blocks {
			cond := ifCond(b)
			if cond == nil {
				continue
			}
			v, neg := unwrapNot(cond)
			call, isCall := v.(*ssa.Call)
			if !isCall {
				continue
			}
			o := CalleeObj(call)
			if o == nil || o.Pkg() == nil || o.Pkg().Path() != "errors" || o.Name() != "Is" {
				continue
			}
			isDE := false
			if u, isU := call.Call.Args[1].(*ssa.UnOp); isU {
				if g, isG := u.X.(*ssa.Global); isG && g.Name() == "DeadlineExceeded" {
					isDE = true
				}
			}
			if !isDE {
				continue
			}
			succ := b.Succs[0]
			if neg {
				succ = b.Succs[1]
			}
			if retWrapsOnBlock(succ, "ErrTimeoutError") {
				ok = true
			}
		}
		r.Check(ok, rule, shortFn(fn)+" deadline branch", c.Pos(fn.Pos()), "DeadlineExceeded -> ErrTimeoutError",
			"the operation does not map an expired deadline to an error wrapping ErrTimeoutError")
	}
	// (b) timer case -> ErrTimeoutError
	for _, sp := range [][3]string{{"channel", "Channel", "AuthenticateSSH"}, {"channel", "Channel", "AuthenticateTelnet"}, {"driver/netconf", "Driver", "sendRPC"}} {
		fn := c.LookupFunc(sp[0], sp[1], sp[2])
		if fn == nil {
			r.Anchor(rule, sp[0]+"."+sp[1]+"."+sp[2])
			continue
		}
		ok := false
		for _, body := range append([]*ssa.Function{fn}, tailHelpers(fn)...) {
			fn := body
			allInstrs(fn, func(in ssa.Instruction) {
				sel, isSel := in.(*ssa.Select)
				if !isSel {
					return
				}
				for i, st := range sel.States {
					isTimer := false
					if f, _, isLoad := fieldLoad(st.Chan); isLoad && f.Name() == "C" {
						isTimer = true
					}
					if call, isCall := st.Chan.(*ssa.Call); isCall {
						if o := CalleeObj(call); o != nil && o.Name() == "After" {
							isTimer = true
						}
						// the Done channel of a context that carries the operation's deadline
						if call.Call.IsInvoke() && call.Call.Method.Name() == "Done" && isContextType(call.Call.Value.Type()) {
							if kind, src := ctxOrigin(call.Call.Value, 0); kind == "with-timeout" {
								if cc, ok := src.(*ssa.Call); ok {
									if o := CalleeObj(cc); o != nil && (o.Name() == "WithTimeout" || o.Name() == "WithDeadline") {
										isTimer = true
									}
								}
							}
						}
					}
					if !isTimer {
						continue
					}
					for _, b := range fn.Blocks {
						if idx, isCase := selectCaseOf(b, sel); isCase && idx == i && retWrapsOnBlock(b, "ErrTimeoutError") {
							ok = true
						}
					}
				}
			})
		}
		r.Check(ok, rule, shortFn(fn)+" timer branch", c.Pos(fn.Pos()), "timer -> ErrTimeoutError",
			"the timer case of the operation does not return an error wrapping ErrTimeoutError")
	}
	// (c) implicit acquire failure -> ErrPrivilegeError
	acq := c.LookupFunc("driver/network", "Driver", "AcquirePriv")
	for _, name := range []string{"SendCommand", "SendCommands", "SendCommandsFromFile"} {
		fn := c.LookupFunc("driver/network", "Driver", name)
		if fn == nil || acq == nil {
			r.Anchor(rule, "(*network.Driver)."+name+" / AcquirePriv")
			continue
		}
		ok := false
		// the implicit acquire may be wrapped in a helper of the package whose error the operation returns as it is
		holders := []*ssa.Function{fn}
		for _, ci := range callInstrs(fn) {
			h := ci.Common().StaticCallee()
			if h == nil || h.Pkg != fn.Pkg || h.Object() == nil || h.Object().Exported() || len(staticCallsTo(h, acq)) == 0 {
				continue
			}
			if stepErrReturned(c, fn, ci) == "" {
				holders = append(holders, h)
			}
		}
		for _, holder := range holders {
			for _, ci := range staticCallsTo(holder, acq) {
				errs := errResultsOf(ci.(*ssa.Call))
				if len(errs) != 1 {
					continue
				}
				for _, b := range holder.Blocks {
					cond := ifCond(b)
					if cond == nil {
						continue
					}
					x, nonNilOnTrue, isNil := nilCheck(cond)
					if !isNil || x != errs[0] {
						continue
					}
					succ := b.Succs[1]
					if nonNilOnTrue {
						succ = b.Succs[0]
					}
					if retWrapsOnBlock(succ, "ErrPrivilegeError") {
						ok = true
					}
				}
			}
		}
		r.Check(ok, rule, shortFn(fn)+" implicit acquire failure", c.Pos(fn.Pos()), "-> ErrPrivilegeError",
			"a failed implicit privilege change is not reported as an error wrapping ErrPrivilegeError")
	}
}

// ---- no read after return ---------------------------------------------------------------------------

func checkNoReadAfterReturn(c *Ctx, r *Report) {
	rule := "C05/no-read-after-return"
	io := c.ioCapable()
	isIO := func(ci ssa.CallInstruction) bool {
		for _, callee := range c.Callees(ci) {
			if io[callee] {
				return true
			}
		}
		return false
	}
	for _, wi := range collectWorkers(c) {
		if len(wi.Sends) == 0 {
			continue
		}
		// does the worker do device I/O at all?
		does := false
		for _, f := range append([]*ssa.Function{wi.Worker}, AnonFuncsDeep(wi.Worker)...) {
			for _, ci := range callInstrs(f) {
				if isIO(ci) {
					does = true
				}
			}
		}
		if !does {
			continue
		}
		construct := shortFn(wi.Spawner) + " worker " + shortFn(wi.Worker)
		pos := c.Pos(wi.Go.Pos())
		// (1) no I/O after a send in the worker
		after := ""
		for _, s := range wi.Sends {
			rr := reachFrom(wi.Worker, s.Instr, nil, nil)
			for in := range rr.visited {
				if ci, ok := in.(ssa.CallInstruction); ok && isIO(ci) {
					after = fmt.Sprintf("after handing over its result at %s the worker performs further device I/O at %s", c.Pos(s.Instr.Pos()), c.Pos(in.Pos()))
				}
			}
		}
		// (2) the spawner leaves only after an unconditional receive
		recvBlocks := map[*ssa.BasicBlock]bool{}
		for _, op := range wi.Recvs {
			sel, ok := op.Instr.(*ssa.Select)
			if !ok {
				continue
			}
			for i, st := range sel.States {
				if st.Dir == types.RecvOnly && resolveMakeChan(c, st.Chan, 0) == wi.Chan {
					for _, b := range wi.Spawner.Blocks {
						if idx, isCase := selectCaseOf(b, sel); isCase && idx == i {
							recvBlocks[b] = true
						}
					}
				}
			}
		}
		plainRecv := func(in ssa.Instruction) bool {
			for _, op := range wi.Recvs {
				if op.Instr == in && op.Kind == "recv" {
					return true
				}
			}
			// the body of the select case that received from the result channel
			if recvBlocks[in.Block()] && in.Block().Instrs[0] == in {
				return true
			}
			return false
		}
		leaves := ""
		rr := reachFrom(wi.Spawner, wi.Go, plainRecv, nil)
		for in := range rr.visited {
			if isReturn(in) {
				leaves = fmt.Sprintf("the spawner can return at %s (timer / ctx case) while the worker is still reading from the device", c.Pos(in.Pos()))
			}
		}
		switch {
		case after != "":
			r.Bad(rule, construct, pos, after+": output of the next exchange is consumed by a finished operation")
		case leaves != "":
			r.Bad(rule, construct+" spawner-leaves", pos, leaves+": a timed-out operation can consume device output after it has returned")
		default:
			r.OK(rule, construct, pos, "reads strictly before the single hand-off; spawner always receives")
		}
	}
}

// ---- K7 --------------------------------------------------------------------------------------------

func checkClosedResultNil(c *Ctx, r *Report) {
	rule := "C05/closed-result-nil"
	n := 0
	for _, wi := range collectWorkers(c) {
		if len(wi.Closes) == 0 {
			continue
		}
		// path from worker entry to exit without a send?
		isSend := func(in ssa.Instruction) bool {
			for _, s := range wi.Sends {
				if s.Instr == in {
					return true
				}
			}
			return false
		}
		rr := reachFrom(wi.Worker, nil, isSend, nil)
		noSend := false
		for in := range rr.visited {
			if isReturn(in) && !(len(in.Block().Preds) == 0 && in.Block() != wi.Worker.Blocks[0]) {
				noSend = true
			}
		}
		if !noSend {
			continue
		}
		n++
		construct := shortFn(wi.Spawner) + " result of " + shortFn(wi.Worker)
		// every dereference of the received value must be nil-guarded
		bad := ""
		for _, rc := range wi.Recvs {
			var val ssa.Value
			switch x := rc.Instr.(type) {
			case *ssa.UnOp:
				val = x
			case *ssa.Select:
				for _, ref := range *x.Referrers() {
					if ex, ok := ref.(*ssa.Extract); ok && ex.Index >= 2 {
						if _, isPtr := ex.Type().Underlying().(*types.Pointer); isPtr {
							val = ex
						}
					}
				}
			}
			if val == nil {
				continue
			}
			for _, ref := range *val.Referrers() {
				fa, ok := ref.(*ssa.FieldAddr)
				if !ok {
					continue
				}
				guarded := false
				for _, ec := range edgeConds(fa.Block()) {
					x, nonNilOnTrue, isNil := nilCheck(ec.Cond)
					if isNil && x == val && nonNilOnTrue == ec.Truth {
						guarded = true
					}
				}
				if !guarded {
					bad = c.Pos(fa.Pos())
				}
			}
		}
		if bad == "" {
			r.OK(rule, construct, c.Pos(wi.Go.Pos()), "received value nil-checked before use")
		} else {
			r.Bad(rule, construct, c.Pos(wi.Go.Pos()), fmt.Sprintf("the worker can close its result channel without sending (deadline seen first); the spawner then receives nil and dereferences it at %s without a nil test: a panic instead of the timeout error", bad))
		}
	}
	if n == 0 {
		r.OK(rule, "no worker closes its result channel without sending", "-", "")
	}
}

// sameFieldValue: the same SSA value, or two loads of the same field of the same base (go/ssa has no CSE).
func sameFieldValue(a, b ssa.Value) bool {
	if a == b {
		return true
	}
	fa, ba, oka := fieldLoad(a)
	fb, bb, okb := fieldLoad(b)
	return oka && okb && fa == fb && ba == bb
}

// tailHelpers: the unexported functions of fn's package that fn calls exactly once, outside any loop, and whose
// results it returns unchanged (`return c.await(...)`): the tail of the operation moved into a helper.
func tailHelpers(fn *ssa.Function) []*ssa.Function {
	var out []*ssa.Function
	for _, ci := range callInstrs(fn) {
		call, ok := ci.(*ssa.Call)
		if !ok {
			continue
		}
		h := call.Call.StaticCallee()
		if h == nil || h.Pkg != fn.Pkg || h == fn || h.Object() == nil || h.Object().Exported() || len(h.Blocks) == 0 || len(staticCallsTo(fn, h)) != 1 || inLoop(call.Block()) {
			continue
		}
		returned := false
		allInstrs(fn, func(in ssa.Instruction) {
			ret, isRet := in.(*ssa.Return)
			if !isRet || len(ret.Results) == 0 {
				return
			}
			all := true
			for i, rv := range ret.Results {
				want := resultOf(call, i)
				if len(ret.Results) == 1 {
					want = call
				}
				got := rv
				if u, isU := rv.(*ssa.UnOp); isU { // defer-spilled result
					if a, isA := u.X.(*ssa.Alloc); isA {
						if v := lastStoreBefore(a, u); v != nil {
							got = v
						}
					}
				}
				if got != want {
					all = false
				}
			}
			if all {
				returned = true
			}
		})
		if returned {
			out = append(out, h)
		}
	}
	return out
}
