package main

// C04/level-detection — the current level is read off the prompt by the definition's own rule:
// a level is a candidate exactly when its pattern matches the prompt and none of its not-contains strings
// occurs in the prompt (substring test).

import (
	"fmt"
	"strings"

	"golang.org/x/tools/go/ssa"
)

func checkLevelDetection(c *Ctx, r *Report) {
	rule := "C04/level-detection"
	fn := c.LookupFunc("driver/network", "Driver", "determineCurrentPriv")
	any := c.LookupFunc("util", "", "StringContainsAny")
	member := c.LookupFunc("util", "", "StringSliceContains")
	if fn == nil || any == nil || member == nil {
		r.Anchor(rule, "(*network.Driver).determineCurrentPriv / util.StringContainsAny / util.StringSliceContains")
		return
	}
	checkExistsHelper(c, r, rule, any, "contains(param,elem)", "'some element of the list is a substring of s'")
	checkExistsHelper(c, r, rule, member, "eq(elem,param)", "list membership by equality")
	prompt := fn.Params[1]
	n := 0
	allInstrs(fn, func(in ssa.Instruction) {
		call, ok := in.(*ssa.Call)
		if !ok {
			return
		}
		b, ok := call.Call.Value.(*ssa.Builtin)
		if !ok || b.Name() != "append" {
			return
		}
		// the appended element is the level's Name
		vals := varargValues(call.Call.Args[1])
		isName := false
		for _, v := range vals {
			if v != nil && isFieldLoadNamed(v, "Name") {
				isName = true
			}
		}
		if !isName {
			return
		}
		n++
		construct := "candidate level selection in " + shortFn(fn)
		sawPattern, sawNot := false, false
		var extra []string
		for _, ec := range edgeConds(call.Block()) {
			v, neg := unwrapNot(ec.Cond)
			truth := ec.Truth != neg
			switch x := v.(type) {
			case *ssa.Call:
				if x.Call.StaticCallee() == any && len(x.Call.Args) == 2 && sameParam(x.Call.Args[0], prompt) && isFieldLoadNamed(x.Call.Args[1], "NotContains") {
					if truth {
						extra = append(extra, "a level is kept when the prompt DOES contain one of its not-contains strings")
					}
					sawNot = true
					continue
				}
				if o := CalleeObj(x); o != nil && o.Pkg() != nil && o.Pkg().Path() == "regexp" && strings.HasPrefix(o.Name(), "Match") && len(x.Call.Args) == 2 && isFieldLoadNamed(x.Call.Args[0], "patternRe") && sameParam(x.Call.Args[1], prompt) {
					if !truth {
						extra = append(extra, "a level is kept when its pattern does NOT match the prompt")
					}
					sawPattern = true
					continue
				}
				// both tests moved into a helper of the package: its truth table must be match && !containsAny
				if h := x.Call.StaticCallee(); h != nil && h.Pkg == fn.Pkg && len(h.Blocks) > 0 {
					passesPrompt := false
					for _, a := range x.Call.Args {
						if sameParam(a, prompt) {
							passesPrompt = true
						}
					}
					if passesPrompt && levelMatchHelperOK(c, h, any) {
						if !truth {
							extra = append(extra, "a level is kept when the match helper says no")
						}
						sawPattern, sawNot = true, true
						continue
					}
				}
				extra = append(extra, "selection also depends on "+describeCall(c, x))
			case *ssa.Extract:
				// ok value of the map range iterator
				if _, isNext := x.Tuple.(*ssa.Next); isNext {
					continue
				}
				extra = append(extra, "selection also depends on "+v.String())
			default:
				extra = append(extra, "selection also depends on "+v.String())
			}
		}
		if !sawPattern {
			extra = append(extra, "the level's pattern is not matched against the prompt")
		}
		if !sawNot {
			extra = append(extra, "the level's not-contains strings are not tested with util.StringContainsAny(prompt, NotContains): levels whose prompts differ only by such a string (configuration vs tclsh) become indistinguishable")
		}
		if len(extra) == 0 {
			r.OK(rule, construct, c.Pos(call.Pos()), "pattern matches && !StringContainsAny(prompt, NotContains)")
		} else {
			r.Bad(rule, construct, c.Pos(call.Pos()), strings.Join(extra, "; "))
		}
	})
	if n == 0 {
		r.Unk(rule, "candidate level selection", c.Pos(fn.Pos()), fmt.Sprintf("no append of a level name found in %s", shortFn(fn)))
		return
	}
	// what is handed back on success is that list of candidates and nothing else: no second pass that drops or adds levels
	// (every level whose pattern matches is a candidate; AcquirePriv breaks ties with the level it last knew)
	var candAppends []*ssa.Call
	allInstrs(fn, func(in ssa.Instruction) {
		call, ok := in.(*ssa.Call)
		if !ok {
			return
		}
		if b, ok := call.Call.Value.(*ssa.Builtin); ok && b.Name() == "append" {
			for _, v := range varargValues(call.Call.Args[1]) {
				if v != nil && isFieldLoadNamed(v, "Name") {
					candAppends = append(candAppends, call)
				}
			}
		}
	})
	var isCandList func(v ssa.Value, seen map[ssa.Value]bool) bool
	isCandList = func(v ssa.Value, seen map[ssa.Value]bool) bool {
		if seen[v] {
			return true
		}
		seen[v] = true
		if isNilConst(v) {
			return true
		}
		switch x := v.(type) {
		case *ssa.Phi:
			for _, e := range x.Edges {
				if !isCandList(e, seen) {
					return false
				}
			}
			return true
		case *ssa.Call:
			for _, a := range candAppends {
				if a == x {
					return isCandList(x.Call.Args[0], seen)
				}
			}
			if b, ok := x.Call.Value.(*ssa.Builtin); ok && b.Name() == "append" {
				return false
			}
			// make([]string, 0, n): an empty base
		case *ssa.MakeSlice:
			if k, ok := constInt(x.Len); ok && k == 0 {
				return true
			}
		case *ssa.Slice:
			if a, ok := x.X.(*ssa.Alloc); ok && x.Low == nil {
				if k, isC := constInt(x.High); isC && k == 0 {
					_ = a
					return true
				}
			}
		}
		return false
	}
	badRet := ""
	nret := 0
	allInstrs(fn, func(in ssa.Instruction) {
		ret, ok := in.(*ssa.Return)
		if !ok || len(ret.Results) != 2 || !isNilConst(ret.Results[1]) {
			return
		}
		nret++
		if !isCandList(ret.Results[0], map[ssa.Value]bool{}) {
			badRet = c.Pos(ret.Pos())
		}
	})
	switch {
	case nret == 0:
		r.Unk(rule, "candidate list returned as collected", c.Pos(fn.Pos()), "no success return found in "+shortFn(fn))
	case badRet != "":
		r.Bad(rule, "candidate list returned as collected", badRet, "the list handed back on success is not the list of levels whose pattern matched (and whose not-contains strings are absent): a second pass adds or drops levels -- a level whose prompt also satisfies its neighbour's pattern is no longer a candidate, so the driver believes it is somewhere else and types the wrong escalation commands")
	default:
		r.OK(rule, "candidate list returned as collected", c.Pos(fn.Pos()), "every success return hands back the accumulated candidates")
	}
}

// checkGetPromptShape: the prompt AcquirePriv reads the current level from: one return is written, the channel is read
// until the prompt pattern matches, and what is handed back is that pattern's match in exactly those bytes.
func checkGetPromptShape(c *Ctx, r *Report) {
	rule := "C04/get-prompt"
	fn := c.LookupFunc("channel", "Channel", "GetPrompt")
	wr := c.LookupFunc("channel", "Channel", "WriteReturn")
	rup := c.LookupFunc("channel", "Channel", "ReadUntilPrompt")
	pp := c.LookupField("channel", "Channel", "PromptPattern")
	if fn == nil || wr == nil || rup == nil || pp == nil {
		r.Anchor(rule, "(*channel.Channel).GetPrompt / WriteReturn / ReadUntilPrompt / PromptPattern")
		return
	}
	construct := "GetPrompt worker"
	var worker *ssa.Function
	for _, f := range append([]*ssa.Function{fn}, AnonFuncsDeep(fn)...) {
		if len(staticCallsTo(f, rup)) > 0 {
			worker = f
		}
	}
	if worker == nil {
		// the exchange moved into an unexported method of the package that the worker calls exactly once
		for _, f := range append([]*ssa.Function{fn}, AnonFuncsDeep(fn)...) {
			for _, ci := range callInstrs(f) {
				h := ci.Common().StaticCallee()
				if h == nil || h.Pkg != fn.Pkg || h.Object() == nil || h.Object().Exported() || h == fn {
					continue
				}
				if len(staticCallsTo(h, rup)) > 0 && len(staticCallsTo(f, h)) == 1 && !inLoop(ci.Block()) {
					worker = h
				}
			}
		}
	}
	if worker == nil {
		r.Bad(rule, construct, c.Pos(fn.Pos()), "GetPrompt does not read until the prompt")
		return
	}
	ws, rs := staticCallsTo(worker, wr), staticCallsTo(worker, rup)
	if len(ws) != 1 || len(rs) != 1 || !dominatesInstr(ws[0], rs[0]) {
		r.Bad(rule, construct, c.Pos(worker.Pos()), fmt.Sprintf("GetPrompt must write exactly one return and then read until the prompt once (found %d writes, %d reads, or in the wrong order): an extra return leaves an unread prompt in the queue for the next wait", len(ws), len(rs)))
		return
	}
	read := resultOf(rs[0].(*ssa.Call), 0)
	okFind := false
	allInstrs(worker, func(in ssa.Instruction) {
		call, ok := in.(*ssa.Call)
		if !ok {
			return
		}
		o := CalleeObj(call)
		if o == nil || o.Pkg() == nil || o.Pkg().Path() != "regexp" || o.Name() != "Find" || len(call.Call.Args) != 2 {
			return
		}
		if f, _, isLoad := fieldLoad(call.Call.Args[0]); !isLoad || f != pp {
			return
		}
		arg := call.Call.Args[1]
		if arg == read {
			okFind = true
		}
		if u, ok := arg.(*ssa.UnOp); ok {
			if a, ok := u.X.(*ssa.Alloc); ok {
				for _, ref := range *a.Referrers() {
					if st, ok := ref.(*ssa.Store); ok && st.Val == read {
						okFind = true
					}
				}
			}
		}
	})
	if okFind {
		r.OK(rule, construct, c.Pos(rs[0].Pos()), "WriteReturn; ReadUntilPrompt(ctx); PromptPattern.Find(those bytes)")
	} else {
		r.Bad(rule, construct, c.Pos(rs[0].Pos()), "what GetPrompt returns is not the prompt pattern's match in the bytes it has just read: the privilege level is then determined from something other than the device's current prompt")
	}
}

// levelMatchHelperOK: h returns true exactly when the level's pattern matches the prompt and the prompt contains none
// of the level's not-contains strings (decision table of the helper over the two tests).
func levelMatchHelperOK(c *Ctx, h, any *ssa.Function) bool {
	res := h.Signature.Results()
	if res.Len() != 1 {
		return false
	}
	isAtom := func(call *ssa.Call) bool {
		if call.Call.StaticCallee() == any {
			return true
		}
		o := CalleeObj(call)
		return o != nil && o.Pkg() != nil && o.Pkg().Path() == "regexp" && strings.HasPrefix(o.Name(), "Match")
	}
	paths := EnumeratePaths(c, h, &dtConfig{IsAtomCall: isAtom})
	if len(paths) == 0 {
		return false
	}
	for _, p := range paths {
		if p.Undecided != "" || len(p.Returns) != 1 {
			return false
		}
		contains, match := "", ""
		var matchKey, containsKey string
		for k, v := range p.Assume {
			switch {
			case strings.Contains(k, "StringContainsAny(") && strings.Contains(k, "NotContains"):
				contains, containsKey = v, k
			case strings.Contains(k, ".Match") && strings.Contains(k, "patternRe"):
				match, matchKey = v, k
			}
		}
		_ = containsKey
		ret := p.Returns[0]
		switch {
		case ret == "true":
			if !(contains == "false" && match == "true") {
				return false
			}
		case ret == "false":
			if !(contains == "true" || match == "false") {
				return false
			}
		case strings.Contains(ret, ".Match") && strings.Contains(ret, "patternRe") && (matchKey == "" || ret == matchKey):
			// returns the pattern test itself: the not-contains test must have said no on this path
			if contains != "false" {
				return false
			}
		default:
			return false
		}
	}
	return true
}
