package main

// C07 — Close always completes: no panic, deadlock, leaked goroutine or data race.

import (
	"fmt"
	"go/token"
	"go/types"
	"sort"
	"strings"

	"golang.org/x/tools/go/ssa"
)

func init() {
	register(&Property{
		ID:  "C07",
		Run: runC07,
		Explanation: "Channel-operation discipline and lockset analysis over the SSA of the whole library, valid for every schedule because no interleaving is enumerated. " +
			"Thread classes: API (functions reachable from exported driver/channel/transport methods without following go), the channel reader (go c.read()), the NETCONF reader (go d.read()), spawned workers/helpers. " +
			"K1 a struct-field channel closed in one class while another class sends on it (send on closed channel); K2 close of a field channel in an exported method without once-guard (second Close panics); " +
			"K3 blocking send/receive on an unbuffered field channel on the API thread outside a select with an alternative (Close can hang); K4 a long-lived reader sending on an unbuffered field channel outside a select with its done channel (reader can never be stopped); " +
			"K5 a worker sending on a local unbuffered channel whose spawner can leave through another select case or receives fewer times than the worker sends (leaked goroutine); K6 the reader polls done after a failed transport read before forwarding the error; " +
			"L for every struct field accessed by two classes with a post-start write, the must-held locksets intersect (pre-start writes, i.e. those dominating the go statement or only reachable from such call sites, are exempt; option closures are only followed when their asserted type is the boxed type); " +
			"close-reaches-transport: every return of Channel.Close is preceded by Transport.Close, the timeout edge is the forced one, the forced path takes no read lock, each driver Close reaches Channel.Close on every path. " +
			"NOT decided: that a blocked OS read returns when its descriptor is closed; the wall-clock bound of Close.",
		Assumptions: []string{"Go memory model; sync and channel semantics", "Open is called once per driver and completes before other methods are used", "operation workers are ordered with their spawner by the go statement and the result channel (foreground class)"},
		Mutants:     c07Mutants,
	})
}

var c07Mutants = []Mutant{
	{ID: "C07-lock-order-inverted", Desc: "the NETCONF stores take their two locks in opposite orders (a reply that is also a notification is filed under both)", Rule: "C07/lock-order",
		Edits: []Edit{{File: "driver/netconf/driver.go", Old: "\td.messagesLock.Lock()\n\tdefer d.messagesLock.Unlock()\n\n\td.messages[i] = b\n", New: "\td.messagesLock.Lock()\n\tdefer d.messagesLock.Unlock()\n\n\td.subscriptionsLock.Lock()\n\t_, isSub := d.subscriptions[i]\n\td.subscriptionsLock.Unlock()\n\n\tif isSub {\n\t\treturn\n\t}\n\n\td.messages[i] = b\n"},
			{File: "driver/netconf/driver.go", Old: "\td.subscriptionsLock.Lock()\n\tdefer d.subscriptionsLock.Unlock()\n\n\td.subscriptions[i] = append(d.subscriptions[i], b)\n", New: "\td.subscriptionsLock.Lock()\n\tdefer d.subscriptionsLock.Unlock()\n\n\td.messagesLock.Lock()\n\tdelete(d.messages, i)\n\td.messagesLock.Unlock()\n\n\td.subscriptions[i] = append(d.subscriptions[i], b)\n"}}},
	{ID: "C07-getdepth-relocks", Desc: "Queue.GetDepth calls a helper that takes the read lock again", Rule: "C07/no-reentrant-lock",
		Edits: []Edit{{File: "util/queue.go", Old: "\tq.lock.RLock()\n\tdefer q.lock.RUnlock()\n\n\treturn q.depth\n}\n", New: "\tq.lock.RLock()\n\tdefer q.lock.RUnlock()\n\n\treturn q.getDepth()\n}\n"},
			{File: "util/queue.go", Old: "\td := <-q.depthChan\n\tq.depthChan <- d\n\n\treturn d\n", New: "\tq.lock.RLock()\n\tdefer q.lock.RUnlock()\n\n\treturn q.depth\n"}}},
	{ID: "C07-waitgroup-add-in-goroutine", Desc: "the logging fan-out raises its WaitGroup inside the goroutine it counts", Rule: "C07/waitgroup-add",
		Edits: []Edit{{File: "logging/logging.go", Old: "\t\twg.Add(1)\n\n\t\tlf := f\n\n\t\tgo func() {\n\t\t\tlf(m)\n\n\t\t\twg.Done()\n\t\t}()", New: "\t\tlf := f\n\n\t\tgo func() {\n\t\t\twg.Add(1)\n\t\t\tdefer wg.Done()\n\n\t\t\tlf(m)\n\t\t}()"}}},
	{ID: "C07-value-receiver", Desc: "Queue.GetDepth takes the queue by value", Rule: "C07/pointer-receivers",
		Edits: []Edit{{File: "util/queue.go", Old: "func (q *Queue) GetDepth() int {", New: "func (q Queue) GetDepth() int {"}}},
	{ID: "C07-poller-cancel-not-deferred", Desc: "sendRPC no longer defers the cancel of its poller context", Rule: "C07/cancel-released",
		Edits: []Edit{{File: "driver/netconf/rpc.go", Old: "\tdefer cancel()\n\n\tgo func() {\n\t\tdefer close(done)", New: "\ttimer := time.AfterFunc(d.Channel.GetTimeout(op.Timeout), cancel)\n\n\tdefer timer.Stop()\n\n\tgo func() {\n\t\tdefer close(done)"}, {File: "driver/netconf/rpc.go", Old: "\ttimer := time.NewTimer(d.Channel.GetTimeout(op.Timeout))\n\n\tselect {\n\tcase err = <-d.errs:\n\t\treturn nil, err\n\tcase <-timer.C:", New: "\tselect {\n\tcase err = <-d.errs:\n\t\treturn nil, err\n\tcase <-ctx.Done():"}}},
	{ID: "C07-system-close-reaps", Desc: "System.Close waits for the child after signalling it", Rule: "C07/close-no-wait",
		Edits: []Edit{{File: "transport/system.go", Old: "\t\terr = t.c.Process.Kill()\n\t\tif err != nil {\n\t\t\treturn err\n\t\t}\n", New: "\t\terr = t.c.Process.Kill()\n\t\tif err != nil {\n\t\t\treturn err\n\t\t}\n\n\t\t_ = t.c.Wait()\n"}}},
	{ID: "C07-no-done-poll", Desc: "reader no longer polls done after a failed read", Rule: "C07/K6",
		Edits: []Edit{{File: "channel/read.go", Old: "\t\tif err != nil {\n\t\t\tselect {\n\t\t\tcase <-c.done:\n\t\t\t\t// this prevents us from ever writing to, what would in this case be, a closed\n\t\t\t\t// errs channel. also if we are \"done\" we probably only got an error about transport\n\t\t\t\t// dying so we can safely ignore that\n\t\t\t\treturn\n\t\t\tdefault:\n\t\t\t}\n\n", New: "\t\tif err != nil {\n"}}},
	{ID: "C07-timeout-unforced", Desc: "timeout edge of Channel.Close closes unforced", Rule: "C07/close-reaches-transport",
		Edits: []Edit{{File: "channel/channel.go", Old: "return c.t.Close(true)", New: "return c.t.Close(false)"}}},
	{ID: "C07-close-always-locks", Desc: "Transport.Close always takes the read lock", Rule: "C07/close-reaches-transport",
		Edits: []Edit{{File: "transport/transport.go", Old: "\tif !force {\n\t\tt.implLock.Lock()\n\t\tdefer t.implLock.Unlock()\n\t}\n", New: "\t_ = force\n\n\tt.implLock.Lock()\n\tdefer t.implLock.Unlock()\n"}}},
	{ID: "C07-standard-close-early-return", Desc: "Standard.Close returns the session close error before closing the client", Rule: "C07/impl-close-all",
		Edits: []Edit{{File: "transport/standard.go", Old: "\t\tif err != nil && !errors.Is(err, io.EOF) {\n\t\t\tsessionErr = err\n\t\t}", New: "\t\tif err != nil && !errors.Is(err, io.EOF) {\n\t\t\treturn err\n\t\t}"}}},
	{ID: "C07-eof-before-done-poll", Desc: "reader returns on EOF before acknowledging the closer", Rule: "C07/K6",
		Edits: []Edit{{File: "channel/read.go", Old: "\t\tif err != nil {\n\t\t\tselect {\n\t\t\tcase <-c.done:", New: "\t\tif err != nil {\n\t\t\tif errors.Is(err, io.EOF) {\n\t\t\t\treturn\n\t\t\t}\n\n\t\t\tselect {\n\t\t\tcase <-c.done:"}}},
	{ID: "C07-close-nils-message-store", Desc: "NETCONF Close drops the reply store before stopping its reader", Rule: "C07/M",
		Edits: []Edit{{File: "driver/netconf/driver.go", Old: "\td.done <- true\n\n\terr := d.Channel.Close()", New: "\td.messagesLock.Lock()\n\td.messages = nil\n\td.messagesLock.Unlock()\n\n\td.done <- true\n\n\terr := d.Channel.Close()"}}},
	{ID: "C07-stop-request-withdrawn", Desc: "Close helper gives up offering done after the ops timeout", Rule: "C07/K6",
		Edits: []Edit{{File: "channel/channel.go", Old: "\t\t\tc.done <- struct{}{}\n", New: "\t\t\tselect {\n\t\t\tcase c.done <- struct{}{}:\n\t\t\tcase <-time.After(c.TimeoutOps):\n\t\t\t}\n"}}},
	{ID: "C07-read-lock-leaked-on-error", Desc: "Transport.read keeps the read lock when the implementation read fails", Rule: "C07/lock-paired",
		Edits: []Edit{{File: "transport/transport.go", Old: "\tt.implLock.Lock()\n\tdefer t.implLock.Unlock()\n\n\treturn t.Impl.Read(n)", New: "\tt.implLock.Lock()\n\n\tb, err := t.Impl.Read(n)\n\tif err != nil {\n\t\treturn nil, err\n\t}\n\n\tt.implLock.Unlock()\n\n\treturn b, nil"}}},
	{ID: "C07-eof-chain-cut", Desc: "standard transport wraps read errors with %s", Rule: "C07/eof-chain",
		Edits: []Edit{{File: "transport/standard.go", Old: "\tn, err := t.reader.Read(b)\n\tif err != nil {\n\t\treturn nil, err\n\t}", New: "\tn, err := t.reader.Read(b)\n\tif err != nil {\n\t\treturn nil, fmt.Errorf(\"%w: read failed: %s\", util.ErrConnectionError, err)\n\t}"}}},
	{ID: "C07-close-only-when-alive", Desc: "Transport.Close returns at once when the implementation reports it is not alive", Rule: "C07/close-reaches-transport",
		Edits: []Edit{{File: "transport/transport.go", Old: "func (t *Transport) Close(force bool) error {\n", New: "func (t *Transport) Close(force bool) error {\n\tif !t.Impl.IsAlive() {\n\t\treturn nil\n\t}\n\n"}}},
	{ID: "C07-close-skips-transport", Desc: "Channel.Close returns early when the reader already exited", Rule: "C07/close-reaches-transport",
		Edits: []Edit{{File: "channel/channel.go", Old: "\t} else {\n\t\tclose(ch)\n\t}\n", New: "\t} else {\n\t\tclose(ch)\n\n\t\treturn nil\n\t}\n"}}},
	{ID: "C07-new-shared-counter", Desc: "reader counts bytes in a plain field read by an API method", Rule: "C07/L",
		Edits: []Edit{
			{File: "channel/channel.go", Old: "\treadLoopExited bool\n", New: "\treadLoopExited bool\n\tbytesSeen      int\n"},
			{File: "channel/read.go", Old: "\t\tc.Q.Enqueue(b)\n", New: "\t\tc.bytesSeen += len(b)\n\n\t\tc.Q.Enqueue(b)\n"},
			{File: "channel/channel.go", Old: "func (c *Channel) GetTimeout(t time.Duration) time.Duration {\n", New: "func (c *Channel) GetTimeout(t time.Duration) time.Duration {\n\tif c.bytesSeen < 0 {\n\t\treturn 0\n\t}\n\n"},
		}},
	{ID: "C07-netconf-close-order", Desc: "netconf Close no longer closes the channel when its reader refuses", Rule: "C07/close-reaches-transport",
		Edits: []Edit{{File: "driver/netconf/driver.go", Old: "\td.done <- true\n\n\terr := d.Channel.Close()\n\tif err != nil {\n\t\treturn err\n\t}\n", New: "\tselect {\n\tcase d.done <- true:\n\tdefault:\n\t\treturn nil\n\t}\n\n\terr := d.Channel.Close()\n\tif err != nil {\n\t\treturn err\n\t}\n"}}},
	{ID: "C07-messages-unlocked", Desc: "storeMessage without the mutex", Rule: "C07/L",
		Edits: []Edit{{File: "driver/netconf/driver.go", Old: "func (d *Driver) storeMessage(i int, b []byte) {\n\td.messagesLock.Lock()\n\tdefer d.messagesLock.Unlock()\n", New: "func (d *Driver) storeMessage(i int, b []byte) {\n"}}},
	{ID: "C07-done-closed-by-close", Desc: "Close closes done instead of sending (second Close panics, K2)", Rule: "C07/K2",
		Edits: []Edit{{File: "channel/channel.go", Old: "\t\t\tc.done <- struct{}{}\n", New: "\t\t\tclose(c.done)\n"}}},
	{ID: "C07-auth-unbuffered", Desc: "ssh auth result channel unbuffered again (worker leaks on timeout)", Rule: "C07/K5",
		Edits: []Edit{{File: "channel/auth.go", Old: "func (c *Channel) AuthenticateSSH(p, pp []byte) ([]byte, error) {\n\t// buffered so the worker can always deliver its result and exit, even if we already gave up\n\tcr := make(chan *result, 1)", New: "func (c *Channel) AuthenticateSSH(p, pp []byte) ([]byte, error) {\n\tcr := make(chan *result)"}}},
	{ID: "C07-caps-double-send", Desc: "capabilities worker falls through after sending the error", Rule: "C07/K5",
		Edits: []Edit{{File: "driver/netconf/capabilities.go", Old: "\t\tcr <- &result{b: b, err: err}\n", New: "\t\tif err != nil {\n\t\t\tcr <- &result{b: b, err: err}\n\t\t}\n\n\t\tcr <- &result{b: b, err: nil}\n"}}},
	{ID: "C07-rpc-worker-unbuffered", Desc: "rpc poller result channel unbuffered again", Rule: "C07/K5",
		Edits: []Edit{{File: "driver/netconf/rpc.go", Old: "done := make(chan []byte, 1)", New: "done := make(chan []byte)"}}},
	{ID: "C07-generic-close-early", Desc: "generic Close returns when OnClose fails", Rule: "C07/close-reaches-transport",
		Edits: []Edit{{File: "driver/generic/driver.go", Old: "\t\t\td.Logger.Criticalf(\"error executing generic driver OnClose, error: %s\", err)\n", New: "\t\t\td.Logger.Criticalf(\"error executing generic driver OnClose, error: %s\", err)\n\n\t\t\treturn err\n"}}},
}

// ---- thread classes ------------------------------------------------------------------

type classes struct {
	c          *Ctx
	apiRoots   []*ssa.Function
	chanReader *ssa.Function
	ncReader   *ssa.Function
	API        map[*ssa.Function]bool // reachable from API roots, same thread (no go edges)
	FG         map[*ssa.Function]bool // API + spawned workers (go edges followed), excluding the two readers
	R1, R2     map[*ssa.Function]bool
	edgeOK     func(ssa.CallInstruction, *ssa.Function) bool
}

func exportedMethodsOf(c *Ctx, pkgRel, typ string) []*ssa.Function {
	n := c.LookupType(pkgRel, typ)
	if n == nil {
		return nil
	}
	var out []*ssa.Function
	for i := 0; i < n.NumMethods(); i++ {
		m := n.Method(i)
		if m.Exported() {
			if fn := c.Prog.FuncValue(m); fn != nil {
				out = append(out, fn)
			}
		}
	}
	return out
}

func buildClasses(c *Ctx, r *Report, rule string) *classes {
	cl := &classes{c: c}
	cl.chanReader = c.LookupFunc("channel", "Channel", "read")
	cl.ncReader = c.LookupFunc("driver/netconf", "Driver", "read")
	if cl.chanReader == nil {
		r.Anchor(rule, "(*channel.Channel).read")
	}
	if cl.ncReader == nil {
		r.Anchor(rule, "(*netconf.Driver).read")
	}
	for _, t := range [][2]string{{"driver/generic", "Driver"}, {"driver/network", "Driver"}, {"driver/netconf", "Driver"}, {"channel", "Channel"}} {
		ms := exportedMethodsOf(c, t[0], t[1])
		if len(ms) == 0 {
			r.Anchor(rule, t[0]+"."+t[1]+" exported methods")
		}
		cl.apiRoots = append(cl.apiRoots, ms...)
	}
	readers := map[*ssa.Function]bool{cl.chanReader: true, cl.ncReader: true}
	cl.edgeOK = func(site ssa.CallInstruction, callee *ssa.Function) bool {
		if readers[callee] {
			if _, isGo := site.(*ssa.Go); isGo {
				return false
			}
		}
		return c.optionEdgeFeasible(site, callee)
	}
	cl.API = c.reachFns(cl.apiRoots, cl.edgeOK, true)
	cl.FG = c.reachFns(cl.apiRoots, cl.edgeOK, false)
	if cl.chanReader != nil {
		cl.R1 = c.reachFns([]*ssa.Function{cl.chanReader}, c.optionEdgeFeasible, false)
	}
	if cl.ncReader != nil {
		cl.R2 = c.reachFns([]*ssa.Function{cl.ncReader}, c.optionEdgeFeasible, false)
	}
	return cl
}

func (cl *classes) classOf(fn *ssa.Function) []string {
	var out []string
	if cl.R1[fn] {
		out = append(out, "channel-reader")
	}
	if cl.R2[fn] {
		out = append(out, "netconf-reader")
	}
	if cl.API[fn] {
		out = append(out, "api")
	} else if cl.FG[fn] {
		out = append(out, "worker")
	}
	return out
}

// starterInfo describes the function that starts a reader goroutine.
type starterInfo struct {
	Fn *ssa.Function
	Go ssa.Instruction
}

func findStarter(c *Ctx, reader *ssa.Function) *starterInfo {
	for _, fn := range c.LibFns {
		for _, ci := range callInstrs(fn) {
			if g, ok := ci.(*ssa.Go); ok {
				for _, callee := range c.Callees(g) {
					if callee == reader {
						return &starterInfo{Fn: fn, Go: g}
					}
				}
			}
		}
	}
	return nil
}

// postStartReach: functions reachable from roots when, inside the starter, call
// sites that dominate the go statement are not followed (their effects precede the goroutine).
func postStartReach(c *Ctx, roots []*ssa.Function, st *starterInfo, edgeOK func(ssa.CallInstruction, *ssa.Function) bool) map[*ssa.Function]bool {
	return c.reachFns(roots, func(site ssa.CallInstruction, callee *ssa.Function) bool {
		if edgeOK != nil && !edgeOK(site, callee) {
			return false
		}
		if st != nil && site.Parent() == st.Fn && dominatesInstr(site, st.Go) {
			return false
		}
		return true
	}, false)
}

// ---- main -----------------------------------------------------------------------------

func runC07(c *Ctx, r *Report) {
	r.Rule("C07/child-stored", "every command the system transport starts is stored in the transport, where Close finds the process to signal", 1)
	checkChildStored(c, r, "C07/child-stored")
	importFoundation(c, r, "C07", "netconf-reader-lifecycle")
	r.Rule("C07/close-callers", "Channel.Close is called by Open (failure path) and Close methods only (it is not idempotent: a second close panics)", 4)
	checkCloseCallers(c, r, "C07/close-callers")
	r.Rule("C07/reader-released", "(restated from C06) Channel.Read looks at the error channel before it dequeues: an operation that is served from the queue alone still takes the pending error, so the reader is never left parked in its send when Close closes that channel", 4)
	importObligations(r, func(sub *Report) { checkReaderExit(c, sub) }, "C06/reader", "C07/reader-released")
	r.Rule("C07/globals-immutable", "package-level variables of the library are written only by init functions and inside sync.Once", 1)
	checkGlobalsNotWrittenAtRunTime(c, r, "C07/globals-immutable")
	importFoundation(c, r, "C07", "priv-bounded")
	r.Rule("C07/waitgroup-add", "every sync.WaitGroup counter is raised by the spawning side, before the goroutine it accounts for exists", 1)
	checkWaitGroupAddBeforeGo(c, r, "C07/waitgroup-add")
	importFoundation(c, r, "C07", "queue")
	r.Rule("C07/lock-order", "the library's mutexes are acquired in one global order (no deadlock between the reader, the caller and Close)", 1)
	checkLockOrder(c, r, "C07/lock-order")
	r.Rule("C07/no-reentrant-lock", "no method calls, while it holds a lock of its receiver, a method of the same receiver that takes that lock again", 1)
	checkNoReentrantLock(c, r, "C07/no-reentrant-lock", nil)
	r.Rule("C07/closed-result-nil", "a value received from a result channel that its worker may close without sending is nil-checked before use (no panic after a transport error)", 1)
	importObligations(r, func(sub *Report) { checkClosedResultNil(c, sub) }, "C05/closed-result-nil", "C07/closed-result-nil")
	r.Rule("C07/cancel-released", "the cancel function of every context the library creates is deferred or called on every path to a return (a poller watching the context does not outlive the operation)", 6)
	checkCancelDeferred(c, r, "C07/cancel-released")
	r.Rule("C07/close-no-wait", "Close of each built-in transport calls no wait-for-peer API: it returns in bounded time whatever the peer does", 3)
	checkCloseNoWaitAs(c, r, "C07/close-no-wait")
	r.Rule("C07/pointer-receivers", "every method of a struct that carries a lock or a once has a pointer receiver (a value receiver copies the guarded fields outside the lock)", 3)
	checkPointerReceivers(c, r, "C07/pointer-receivers", nil)
	r.Rule("C07/K1", "a struct-field channel is not closed by one thread class while another class sends on it", 1)
	r.Rule("C07/K2", "a struct-field channel is closed in an exported method only under a once-guard", 1)
	r.Rule("C07/K3", "no blocking send/receive on an unbuffered struct-field channel on the API thread outside a select with an alternative", 1)
	r.Rule("C07/K4", "a long-lived reader goroutine sends on an unbuffered struct-field channel only inside a select that also waits on its done channel", 2)
	r.Rule("C07/K5", "a worker's send on a local unbuffered channel is always received: the spawner receives unconditionally and as often as the worker sends, or the send is in a select with an alternative", 6)
	r.Rule("C07/K6", "the channel reader polls done after a failed transport read, before forwarding the error and before returning; the closer keeps its stop request pending", 3)
	r.Rule("C07/L", "every struct field accessed by two thread classes with a post-start write is protected by a common must-held lock (or is a channel/sync value)", 4)
	r.Rule("C07/M", "a map field a reader goroutine inserts into is never assigned anything but a fresh map once that goroutine may run", 2)
	r.Rule("C07/lock-paired", "every Lock/RLock of a library mutex is followed on all paths to the return by its Unlock/RUnlock or a deferred one", 4)
	r.Rule("C07/eof-chain", "every transport read function hands its error on unwrapped or wrapped with %w, so the reader's errors.Is(err, io.EOF) sees the end of the stream", 6)
	r.Rule("C07/impl-close-all", "Close of each built-in transport releases every closable resource it holds (or finds it nil) before any return", 3)
	r.Rule("C07/close-reaches-transport", "every return of Channel.Close is preceded by Transport.Close; the timeout edge is forced; the forced path takes no read lock; reads hold the read lock; every driver Close reaches Channel.Close", 6)

	cl := buildClasses(c, r, "C07/L")
	if cl.chanReader == nil || cl.ncReader == nil {
		return
	}
	checkFieldChannels(c, r, cl)
	checkWorkers(c, r, cl, "C07/K5", true)
	checkDonePoll(c, r, cl)
	checkLockset(c, r, cl, "C07/L", nil)
	checkReaderMaps(c, r, cl)
	checkLockPaired(c, r)
	checkEOFChain(c, r)
	checkCloseReachesTransport(c, r)
	checkImplCloseAll(c, r)
	r.Extra["api_roots"] = len(cl.apiRoots)
	r.Extra["api_thread_functions"] = len(cl.API)
	r.Extra["foreground_functions"] = len(cl.FG)
	r.Extra["channel_reader_functions"] = len(cl.R1)
	r.Extra["netconf_reader_functions"] = len(cl.R2)
}

// ---- K1..K4: struct-field channels ------------------------------------------------------

func checkFieldChannels(c *Ctx, r *Report, cl *classes) {
	type key struct{ owner, field string }
	ops := map[key][]chanOp{}
	fieldOf := map[key]*types.Var{}
	for _, fn := range c.LibFns {
		for _, op := range chanOpsOf(fn) {
			if op.Field == nil {
				continue
			}
			k := key{op.Owner, op.Field.Name()}
			ops[k] = append(ops[k], op)
			fieldOf[k] = op.Field
		}
	}
	var keys []key
	for k := range ops {
		keys = append(keys, k)
	}
	sort.Slice(keys, func(i, j int) bool { return keys[i].owner+keys[i].field < keys[j].owner+keys[j].field })
	inventory := []string{}
	doneFields := map[string]bool{"done": true}
	for _, k := range keys {
		name := k.owner + "." + k.field
		if k.owner == "util.Queue" {
			continue // C20
		}
		sizes, known := c.chanFieldBuffer(fieldOf[k])
		unbuffered := known
		for _, s := range sizes {
			if s != 0 {
				unbuffered = false
			}
		}
		var closes, sends []chanOp
		for _, op := range ops[k] {
			inventory = append(inventory, describeOp(c, op)+" "+strings.Join(cl.classOf(op.Fn), "/"))
			switch op.Kind {
			case "close", "defer-close":
				closes = append(closes, op)
			case "send", "select-send":
				sends = append(sends, op)
			}
		}
		// K1
		for _, cs := range closes {
			violated := false
			for _, s := range sends {
				if disjointClass(cl, cs.Fn, s.Fn) {
					violated = true
					r.Bad("C07/K1", fmt.Sprintf("%s closed in %s, sent in %s", name, shortFn(cs.Fn), shortFn(s.Fn)), c.Pos(cs.Instr.Pos()),
						fmt.Sprintf("%s is closed by %s (%s) while %s (%s) may still send on it at %s: a send on a closed channel panics in that goroutine and kills the process",
							name, shortFn(cs.Fn), strings.Join(cl.classOf(cs.Fn), "/"), shortFn(s.Fn), strings.Join(cl.classOf(s.Fn), "/"), c.Pos(s.Instr.Pos())))
				}
			}
			if !violated {
				r.OK("C07/K1", fmt.Sprintf("%s closed in %s", name, shortFn(cs.Fn)), c.Pos(cs.Instr.Pos()), "no sender in another thread class")
			}
			// K2
			if cl.API[cs.Fn] || cl.FG[cs.Fn] {
				if onceGuarded(c, cs) {
					r.OK("C07/K2", fmt.Sprintf("close %s in %s", name, shortFn(cs.Fn)), c.Pos(cs.Instr.Pos()), "once-guarded")
				} else {
					r.Bad("C07/K2", fmt.Sprintf("close %s in %s", name, shortFn(cs.Fn)), c.Pos(cs.Instr.Pos()),
						fmt.Sprintf("%s is closed in %s, reachable from an exported method, without a sync.Once or closed-flag guard: calling the method a second time panics with 'close of closed channel'", name, shortFn(cs.Fn)))
				}
			}
		}
		// K3 / K4
		for _, op := range ops[k] {
			blocking := (op.Kind == "send" || op.Kind == "recv") || (op.InSelect && !op.SelectHasOther)
			if !blocking {
				if op.Kind == "select-send" && (cl.R1[op.Fn] || cl.R2[op.Fn]) && !doneFields[k.field] {
					// K4 satisfied form: select with other case; require the other case to be the done channel
					if selectWaitsOnDone(op) {
						r.OK("C07/K4", fmt.Sprintf("%s send in %s", name, shortFn(op.Fn)), c.Pos(op.Instr.Pos()), "send inside a select that also waits on done")
					} else {
						r.Bad("C07/K4", fmt.Sprintf("%s send in %s", name, shortFn(op.Fn)), c.Pos(op.Instr.Pos()), "reader sends inside a select that does not wait on its done channel")
					}
				}
				continue
			}
			if !unbuffered {
				continue
			}
			construct := fmt.Sprintf("%s %s in %s", name, op.Kind, shortFn(op.Fn))
			switch {
			case (cl.R1[op.Fn] || cl.R2[op.Fn]) && (op.Kind == "send") && !cl.API[op.Fn]:
				r.Bad("C07/K4", construct, c.Pos(op.Instr.Pos()),
					fmt.Sprintf("the long-lived reader %s blocks in a bare send on unbuffered %s until some operation receives: while idle nobody does, so the reader cannot observe its done signal and Close cannot stop it", shortFn(op.Fn), name))
			case cl.API[op.Fn]:
				r.Bad("C07/K3", construct, c.Pos(op.Instr.Pos()),
					fmt.Sprintf("%s performs a blocking %s on unbuffered %s on the caller's thread with no select alternative: if the peer goroutine is not at the matching operation (exited, or itself blocked) the call never returns", shortFn(op.Fn), op.Kind, name))
			}
		}
	}
	r.Extra["field_channel_ops"] = inventory
}

func disjointClass(cl *classes, a, b *ssa.Function) bool {
	ca, cb := cl.classOf(a), cl.classOf(b)
	for _, x := range ca {
		for _, y := range cb {
			if x == y {
				return false
			}
		}
	}
	return len(ca) > 0 && len(cb) > 0
}

func selectWaitsOnDone(op chanOp) bool {
	sel, ok := op.Instr.(*ssa.Select)
	if !ok {
		return false
	}
	for _, st := range sel.States {
		if st.Dir == types.RecvOnly {
			if f, _, _ := chanOrigin(st.Chan); f != nil && f.Name() == "done" {
				return true
			}
		}
	}
	return false
}

// onceGuarded: the close happens inside a function literal passed to (*sync.Once).Do.
func onceGuarded(c *Ctx, op chanOp) bool {
	fn := op.Fn
	if fn.Parent() == nil {
		return false
	}
	guarded := false
	allInstrs(fn.Parent(), func(in ssa.Instruction) {
		ci, ok := in.(ssa.CallInstruction)
		if !ok {
			return
		}
		sc := ci.Common().StaticCallee()
		if sc == nil || sc.Pkg == nil || sc.Pkg.Pkg.Path() != "sync" || sc.Name() != "Do" {
			return
		}
		for _, a := range ci.Common().Args {
			if mc, ok := a.(*ssa.MakeClosure); ok && mc.Fn == fn {
				guarded = true
			}
			if f, ok := a.(*ssa.Function); ok && f == fn {
				guarded = true
			}
		}
	})
	return guarded
}

// ---- K5 / K7: workers and their result channels -----------------------------------------

type workerInfo struct {
	Spawner *ssa.Function
	Go      *ssa.Go
	Worker  *ssa.Function
	Chan    *ssa.MakeChan
	Sends   []chanOp // in worker
	Closes  []chanOp
	Recvs   []chanOp // in spawner
}

// resolveMakeChan follows a channel value to the MakeChan that created it, across
// closure capture and (single call site) parameter passing.
func resolveMakeChan(c *Ctx, v ssa.Value, depth int) *ssa.MakeChan {
	if depth > 6 {
		return nil
	}
	_, _, loc := chanOrigin(v)
	switch x := loc.(type) {
	case *ssa.MakeChan:
		return x
	case *ssa.Parameter:
		fn := x.Parent()
		idx := -1
		for i, p := range fn.Params {
			if p == x {
				idx = i
			}
		}
		var found *ssa.MakeChan
		n := 0
		for _, caller := range c.LibFns {
			for _, ci := range callInstrs(caller) {
				if ci.Common().StaticCallee() == fn {
					args := ci.Common().Args
					if idx < len(args) {
						n++
						found = resolveMakeChan(c, args[idx], depth+1)
					}
				}
			}
		}
		if n == 1 {
			return found
		}
	case *ssa.Alloc:
		for _, ref := range *x.Referrers() {
			if st, ok := ref.(*ssa.Store); ok && st.Addr == x {
				return resolveMakeChan(c, st.Val, depth+1)
			}
		}
	}
	return nil
}

func collectWorkers(c *Ctx) []*workerInfo {
	var out []*workerInfo
	for _, fn := range c.LibFns {
		for _, ci := range callInstrs(fn) {
			g, ok := ci.(*ssa.Go)
			if !ok {
				continue
			}
			callees := c.Callees(g)
			if len(callees) != 1 || callees[0].Blocks == nil {
				continue
			}
			w := callees[0]
			// channels the worker operates on that were made in the spawner
			byChan := map[*ssa.MakeChan]*workerInfo{}
			scan := []*ssa.Function{w}
			for _, f := range scan {
				for _, op := range chanOpsOf(f) {
					if op.Field != nil {
						continue
					}
					var chv ssa.Value
					switch x := op.Instr.(type) {
					case *ssa.Send:
						chv = x.Chan
					case *ssa.Call:
						chv = x.Call.Args[0]
					case *ssa.Defer:
						chv = x.Call.Args[0]
					default:
						continue
					}
					mk := resolveMakeChan(c, chv, 0)
					if mk == nil || mk.Parent() != fn {
						continue
					}
					wi := byChan[mk]
					if wi == nil {
						wi = &workerInfo{Spawner: fn, Go: g, Worker: w, Chan: mk}
						byChan[mk] = wi
					}
					switch op.Kind {
					case "send", "select-send":
						wi.Sends = append(wi.Sends, op)
					case "close", "defer-close":
						wi.Closes = append(wi.Closes, op)
					}
				}
			}
			for mk, wi := range byChan {
				for _, op := range chanOpsOf(fn) {
					if op.Field != nil || (op.Kind != "recv" && op.Kind != "select-recv") {
						continue
					}
					var chv ssa.Value
					switch x := op.Instr.(type) {
					case *ssa.UnOp:
						chv = x.X
					case *ssa.Select:
						for _, st := range x.States {
							if st.Dir == types.RecvOnly && resolveMakeChan(c, st.Chan, 0) == mk {
								chv = st.Chan
							}
						}
					}
					if chv != nil && resolveMakeChan(c, chv, 0) == mk {
						wi.Recvs = append(wi.Recvs, op)
					}
				}
				out = append(out, wi)
			}
		}
	}
	sort.Slice(out, func(i, j int) bool { return fnName(out[i].Spawner) < fnName(out[j].Spawner) })
	return out
}

// checkWorkers evaluates K5 (abandoned / over-sending worker). With k7=false only K5.
func checkWorkers(c *Ctx, r *Report, cl *classes, rule string, _ bool) {
	for _, wi := range collectWorkers(c) {
		if len(wi.Sends) == 0 {
			continue
		}
		size, _ := constInt(wi.Chan.Size)
		construct := shortFn(wi.Spawner) + " worker " + shortFn(wi.Worker)
		pos := c.Pos(wi.Go.Pos())
		if size > 0 {
			r.OK(rule, construct, pos, "buffered result channel")
			continue
		}
		// spawner: unconditional receive on every path from the go statement to a return?
		plainRecv := func(in ssa.Instruction) bool {
			for _, op := range wi.Recvs {
				if op.Instr == in && op.Kind == "recv" {
					return true
				}
			}
			return false
		}
		anyRecv := func(in ssa.Instruction) bool {
			for _, op := range wi.Recvs {
				if op.Instr == in {
					return true
				}
			}
			return false
		}
		canLeave := ""
		rr := reachFrom(wi.Spawner, wi.Go, plainRecv, nil)
		for in := range rr.visited {
			if isReturn(in) {
				canLeave = fmt.Sprintf("the spawner can return at %s without an unconditional receive", c.Pos(in.Pos()))
			}
		}
		// worker: sends not in a select with alternative
		var bare []chanOp
		for _, s := range wi.Sends {
			if s.Kind == "send" || (s.InSelect && !s.SelectHasOther) {
				bare = append(bare, s)
			}
		}
		if len(bare) == 0 {
			r.OK(rule, construct, pos, "every worker send has a select alternative")
			continue
		}
		// double send: a bare send reachable after another send while the spawner receives once
		double := ""
		for _, s := range wi.Sends {
			r2 := reachFrom(wi.Worker, s.Instr, nil, nil)
			for _, s2 := range bare {
				if r2.visited[s2.Instr] {
					// spawner receives in a loop?
					recvInLoop := false
					for _, rc := range wi.Recvs {
						r3 := reachFrom(wi.Spawner, rc.Instr, nil, nil)
						if r3.visited[rc.Instr] {
							recvInLoop = true
						}
					}
					if !recvInLoop {
						double = fmt.Sprintf("after the send at %s the worker can reach a second send at %s, but the spawner receives only once: the worker blocks forever", c.Pos(s.Instr.Pos()), c.Pos(s2.Instr.Pos()))
					}
				}
			}
		}
		_ = anyRecv
		switch {
		case canLeave != "":
			r.Bad(rule, construct, pos, fmt.Sprintf("abandoned worker: %s (another select case or early return) while the worker's send at %s on the unbuffered result channel has no select alternative: the goroutine is leaked, blocked forever", canLeave, c.Pos(bare[0].Instr.Pos())))
		case double != "":
			r.Bad(rule, construct+" double-send", pos, double)
		default:
			r.OK(rule, construct, pos, "spawner always receives; worker sends once per path")
		}
	}
}

// ---- K6 ------------------------------------------------------------------------------------

func checkDonePoll(c *Ctx, r *Report, cl *classes) {
	fn := cl.chanReader
	tRead := c.LookupFunc("transport", "Transport", "Read")
	errsF := c.LookupField("channel", "Channel", "Errs")
	doneF := c.LookupField("channel", "Channel", "done")
	if tRead == nil || errsF == nil || doneF == nil {
		r.Anchor("C07/K6", "(*transport.Transport).Read / Channel.Errs / Channel.done")
		return
	}
	var readCall ssa.Instruction
	for _, ci := range callInstrs(fn) {
		if ci.Common().StaticCallee() == tRead {
			readCall = ci
		}
	}
	if readCall == nil {
		r.Unk("C07/K6", shortFn(fn), c.Pos(fn.Pos()), "the read loop does not call Transport.Read directly")
		return
	}
	isDonePoll := func(in ssa.Instruction) bool {
		if call, isCall := in.(*ssa.Call); isCall {
			// the poll moved into a helper that reports whether done fired
			if f, _, ok := pollHelper(call.Call.StaticCallee()); ok && f == doneF {
				return true
			}
			return false
		}
		sel, ok := in.(*ssa.Select)
		if !ok {
			return false
		}
		for _, st := range sel.States {
			if st.Dir == types.RecvOnly {
				if f, _, _ := chanOrigin(st.Chan); f == doneF {
					return true
				}
			}
		}
		return false
	}
	n := 0
	for _, op := range chanOpsOf(fn) {
		if op.Field != errsF || (op.Kind != "send" && op.Kind != "select-send") {
			continue
		}
		n++
		construct := fmt.Sprintf("%s forward#%d", shortFn(fn), n)
		if op.Kind == "select-send" && selectWaitsOnDone(op) {
			r.OK("C07/K6", construct, c.Pos(op.Instr.Pos()), "the forward itself waits on done")
			continue
		}
		rr := reachFrom(fn, readCall, isDonePoll, nil)
		if rr.visited[op.Instr] {
			r.Bad("C07/K6", construct, c.Pos(op.Instr.Pos()), "after a failed transport read the reader can forward the error on Errs without first polling done: when Close has already closed Errs (and then forced the transport shut, which is what makes the read fail) the send panics", rr.witness(c, op.Instr)...)
		} else {
			// the poll's done edge must return
			r.OK("C07/K6", construct, c.Pos(op.Instr.Pos()), "done is polled between the failed read and the forward")
		}
	}
	if n == 0 {
		r.OK("C07/K6", shortFn(fn)+" forward", c.Pos(fn.Pos()), "the reader does not send on Errs")
	}
	// the closer's stop request stays on offer until the reader takes it: the poll above can only protect the
	// reader from forwarding onto the closed Errs if the offer is still pending when the read finally comes back
	chClose := c.LookupFunc("channel", "Channel", "Close")
	if chClose == nil {
		r.Anchor("C07/K6", "(*channel.Channel).Close")
	} else {
		nOffer := 0
		scope := append([]*ssa.Function{chClose}, anonFuncsWithHelpers(chClose)...)
		for _, ci := range callInstrs(chClose) {
			// the stop request written as an unexported method of the package
			if h := ci.Common().StaticCallee(); h != nil && h.Pkg == chClose.Pkg && h.Object() != nil && !h.Object().Exported() && len(h.Blocks) > 0 {
				scope = append(scope, h)
			}
		}
		seenFn := map[*ssa.Function]bool{}
		for _, f := range scope {
			if seenFn[f] {
				continue
			}
			seenFn[f] = true
			for _, op := range chanOpsOf(f) {
				if op.Field != doneF || (op.Kind != "send" && op.Kind != "select-send") {
					continue
				}
				nOffer++
				if op.Kind == "select-send" && op.SelectHasOther {
					r.Bad("C07/K6", "Channel.Close stop request", c.Pos(op.Instr.Pos()), "the closer's send on done sits in a select with another case: once that case wins the request is withdrawn, and a reader whose blocked read comes back afterwards with a non-EOF error finds no done to poll and forwards the error onto the Errs channel that Close has already closed (panic: send on closed channel, after Close returned)")
				} else {
					r.OK("C07/K6", "Channel.Close stop request", c.Pos(op.Instr.Pos()), "an unconditional send: it stays pending until the reader takes it")
				}
			}
		}
		if nOffer == 0 {
			r.Unk("C07/K6", "Channel.Close stop request", c.Pos(chClose.Pos()), "Channel.Close does not send on the reader's done channel")
		}
	}
	// the reader never leaves after a transport read without having polled done: the closer's request
	// (a goroutine parked in `done <- ...` while the reader sat in a blocking read) is only ever received here
	rr := reachFrom(fn, readCall, isDonePoll, nil)
	var exit ssa.Instruction
	for _, b := range fn.Blocks {
		for _, in := range b.Instrs {
			if isReturn(in) && rr.visited[in] && len(b.Preds) > 0 && exit == nil {
				exit = in
			}
		}
	}
	if exit != nil {
		r.Bad("C07/K6", shortFn(fn)+" exit", c.Pos(exit.Pos()), "the reader can return after a transport read (e.g. on EOF from the forced close) without polling done: the goroutine Close parked in `done <- struct{}{}` while the reader was blocked is never received from and outlives the close", rr.witness(c, exit)...)
	} else {
		r.OK("C07/K6", shortFn(fn)+" exit", c.Pos(fn.Pos()), "every return after a transport read follows a poll of done")
	}
}

// ---- L: lockset --------------------------------------------------------------------------------

type accessRec struct {
	fieldAccess
	Held     lockSet
	PreStart bool
}

// checkLockset evaluates the lockset rule. If onlyFields != nil restrict to those fields.
func checkLockset(c *Ctx, r *Report, cl *classes, rule string, onlyFields map[*types.Var]bool) {
	roots := map[*ssa.Function]bool{cl.chanReader: true, cl.ncReader: true}
	for _, f := range cl.apiRoots {
		roots[f] = true
	}
	// worker closures spawned by go start with no locks (handled in MustLocks via Go edges)
	ml := NewMustLocks(c, roots, c.optionEdgeFeasible)
	st1 := findStarter(c, cl.chanReader)
	st2 := findStarter(c, cl.ncReader)
	if st1 == nil || st2 == nil {
		r.Unk(rule, "reader starters", "-", "cannot find the go statements that start the channel reader / NETCONF reader")
		return
	}
	// foreground post-start sets
	ncRoots := append(exportedMethodsOf(c, "driver/netconf", "Driver"), exportedMethodsOf(c, "channel", "Channel")...)
	fgPost1 := postStartReach(c, cl.apiRoots, st1, cl.edgeOK)
	fgPost2 := postStartReach(c, ncRoots, st2, cl.edgeOK)

	type side struct {
		name string
		fns  map[*ssa.Function]bool
		st   *starterInfo // accesses in st.Fn dominating st.Go are pre-start
	}
	pairs := [][2]side{
		{{"channel-reader", cl.R1, nil}, {"foreground", fgPost1, st1}},
		{{"netconf-reader", cl.R2, nil}, {"netconf-foreground", fgPost2, st2}},
		{{"channel-reader", cl.R1, nil}, {"netconf-reader", cl.R2, nil}},
	}
	collect := func(s side) map[*types.Var][]accessRec {
		out := map[*types.Var][]accessRec{}
		var fns []*ssa.Function
		for fn := range s.fns {
			fns = append(fns, fn)
		}
		sort.Slice(fns, func(i, j int) bool { return fnName(fns[i]) < fnName(fns[j]) })
		for _, fn := range fns {
			if fn.Blocks == nil {
				continue
			}
			for _, a := range fieldAccesses(fn) {
				if a.Field.Pkg() == nil || !isLibPkgPath(a.Field.Pkg().Path()) {
					continue
				}
				if isSyncOrChanType(a.Field.Type()) {
					continue
				}
				if onlyFields != nil && !onlyFields[a.Field] {
					continue
				}
				if s.st != nil && fn == s.st.Fn && dominatesInstr(a.Instr, s.st.Go) {
					continue
				}
				out[a.Field] = append(out[a.Field], accessRec{fieldAccess: a, Held: ml.HeldAt(a.Instr)})
			}
		}
		return out
	}
	reported := map[string]bool{}
	checked := map[string]bool{}
	for _, p := range pairs {
		a, b := collect(p[0]), collect(p[1])
		var fields []*types.Var
		for f := range a {
			if _, ok := b[f]; ok {
				fields = append(fields, f)
			}
		}
		sort.Slice(fields, func(i, j int) bool { return fields[i].Name() < fields[j].Name() })
		for _, f := range fields {
			as, bs := a[f], b[f]
			owner := as[0].Owner
			name := owner + "." + f.Name()
			aw, bw := false, false
			for _, x := range as {
				aw = aw || x.Write
			}
			for _, x := range bs {
				bw = bw || x.Write
			}
			if !aw && !bw {
				continue
			}
			// find a conflicting pair with empty lock intersection
			var bad *[2]accessRec
			for _, x := range as {
				for _, y := range bs {
					if !x.Write && !y.Write {
						continue
					}
					if x.Fn == y.Fn && x.Instr == y.Instr {
						continue
					}
					if !locksProtect(x.Held, y.Held, x.Write, y.Write) {
						if bad == nil {
							bad = &[2]accessRec{x, y}
						}
					}
				}
			}
			construct := fmt.Sprintf("%s %s vs %s", name, p[0].name, p[1].name)
			if bad == nil {
				if !checked[construct] {
					checked[construct] = true
					r.OK(rule, construct, c.Pos(as[0].Instr.Pos()), "all conflicting accesses share a lock")
				}
				continue
			}
			if reported[construct] {
				continue
			}
			reported[construct] = true
			x, y := bad[0], bad[1]
			r.Bad(rule, construct, c.Pos(x.Instr.Pos()),
				fmt.Sprintf("data race on %s: %s in %s (%s, %s, holding %v) and %s in %s (%s, %s, holding %v) with no common lock",
					name, rw(x.Write), shortFn(x.Fn), p[0].name, c.Pos(x.Instr.Pos()), x.Held.names(), rw(y.Write), shortFn(y.Fn), p[1].name, c.Pos(y.Instr.Pos()), y.Held.names()))
		}
	}
}

func rw(w bool) string {
	if w {
		return "write"
	}
	return "read"
}

// locksProtect: some lock is held by both, in a mode excluding the conflict.
func locksProtect(a, b lockSet, aw, bw bool) bool {
	if a == nil || b == nil {
		return false
	}
	for k := range a {
		base := strings.TrimSuffix(strings.TrimSuffix(k, "/W"), "/R")
		aW := a[base+"/W"]
		bW := b[base+"/W"]
		bR := b[base+"/R"]
		aR := a[base+"/R"]
		if aW && (bW || bR) {
			return true
		}
		if aR && bW {
			return true
		}
		_ = aw
		_ = bw
	}
	return false
}

// ---- close-reaches-transport ---------------------------------------------------------------------

func mustCallBeforeReturn(c *Ctx, fn *ssa.Function, isTarget func(ssa.Instruction) bool) (ssa.Instruction, *reachResult) {
	rr := reachFrom(fn, nil, isTarget, nil)
	for _, b := range fn.Blocks {
		for _, in := range b.Instrs {
			if isReturn(in) && rr.visited[in] {
				return in, rr
			}
		}
	}
	return nil, rr
}

func checkCloseReachesTransport(c *Ctx, r *Report) {
	rule := "C07/close-reaches-transport"
	chClose := c.LookupFunc("channel", "Channel", "Close")
	tClose := c.LookupFunc("transport", "Transport", "Close")
	tread := c.LookupFunc("transport", "Transport", "read")
	if chClose == nil || tClose == nil || tread == nil {
		r.Anchor(rule, "(*channel.Channel).Close / (*transport.Transport).Close / read")
		return
	}
	callsTo := func(target *ssa.Function) func(ssa.Instruction) bool {
		return func(in ssa.Instruction) bool {
			ci, ok := in.(*ssa.Call)
			return ok && ci.Call.StaticCallee() == target
		}
	}
	// 1. Channel.Close -> Transport.Close on every path
	if ret, rr := mustCallBeforeReturn(c, chClose, callsTo(tClose)); ret != nil {
		r.Bad(rule, "Channel.Close -> Transport.Close", c.Pos(ret.Pos()), "Channel.Close can return without closing the transport: the connection (and, for the system transport, the ssh child and its pty) is leaked", rr.witness(c, ret)...)
	} else {
		r.OK(rule, "Channel.Close -> Transport.Close", c.Pos(chClose.Pos()), "every return is preceded by Transport.Close")
	}
	// 2. timeout edge is forced, done edge unforced
	var sel *ssa.Select
	allInstrs(chClose, func(in ssa.Instruction) {
		if s, ok := in.(*ssa.Select); ok {
			sel = s
		}
	})
	if sel == nil {
		r.Unk(rule, "Channel.Close select", c.Pos(chClose.Pos()), "Channel.Close has no select between the reader's acknowledgement and a timeout")
	} else {
		timeoutIdx := -1
		for i, st := range sel.States {
			if call, ok := st.Chan.(*ssa.Call); ok {
				if o := CalleeObj(call); o != nil && o.Pkg() != nil && o.Pkg().Path() == "time" && o.Name() == "After" {
					timeoutIdx = i
				}
			}
			if f, _, ok := fieldLoad(st.Chan); ok && f.Name() == "C" {
				timeoutIdx = i
			}
		}
		if timeoutIdx < 0 {
			r.Unk(rule, "Channel.Close timeout edge", c.Pos(sel.Pos()), "no timer case in the select of Channel.Close: a reader parked in a blocking read can never acknowledge")
		} else {
			okForced := false
			found := false
			for _, ci := range callInstrs(chClose) {
				call, ok := ci.(*ssa.Call)
				if !ok || call.Call.StaticCallee() != tClose {
					continue
				}
				idx, ok := selectCaseOf(call.Block(), sel)
				if !ok {
					continue
				}
				force, isConst := constBool(call.Call.Args[1])
				if idx == timeoutIdx {
					found = true
					okForced = isConst && force
				}
			}
			switch {
			case !found:
				r.Bad(rule, "Channel.Close timeout edge", c.Pos(sel.Pos()), "the timeout case of Channel.Close does not close the transport")
			case !okForced:
				r.Bad(rule, "Channel.Close timeout edge", c.Pos(sel.Pos()), "on the timeout edge (reader parked in a blocking transport read, holding the read lock) the transport is closed unforced: Transport.Close waits for the read lock forever")
			default:
				r.OK(rule, "Channel.Close timeout edge", c.Pos(sel.Pos()), "forced close on timeout")
			}
		}
	}
	// 3. Transport.Close: lock only when !force
	nLock := 0
	for _, ci := range callInstrs(tClose) {
		if _, isDefer := ci.(*ssa.Defer); isDefer {
			continue
		}
		_, op, ok := lockOp(ci)
		if !ok || op != "Lock" {
			continue
		}
		nLock++
		guarded := false
		for _, ec := range edgeConds(ci.Block()) {
			v, neg := unwrapNot(ec.Cond)
			truth := ec.Truth
			if neg {
				truth = !truth
			}
			if len(tClose.Params) > 1 && v == ssa.Value(tClose.Params[1]) && !truth {
				guarded = true
			}
		}
		if guarded {
			r.OK(rule, "Transport.Close lock", c.Pos(ci.Pos()), "read lock only on the unforced path")
		} else {
			r.Bad(rule, "Transport.Close lock", c.Pos(ci.Pos()), "Transport.Close takes the read lock on the forced path too: with the reader parked in a blocking read (lock held) the forced close never proceeds")
		}
	}
	if nLock == 0 {
		r.OK(rule, "Transport.Close lock", c.Pos(tClose.Pos()), "no lock taken")
	}
	// 4. Transport.read holds implLock around Impl.Read
	ml := NewMustLocks(c, map[*ssa.Function]bool{tread: true}, nil)
	nread := 0
	for _, ci := range callInstrs(tread) {
		if ci.Common().IsInvoke() && ci.Common().Method.Name() == "Read" {
			nread++
			held := ml.HeldAt(ci)
			if held != nil && held["transport.Transport.implLock/W"] {
				r.OK(rule, "Transport.read lock", c.Pos(ci.Pos()), "implementation read under implLock")
			} else {
				r.Bad(rule, "Transport.read lock", c.Pos(ci.Pos()), "the implementation read is not performed under the read lock: an unforced Close can close the implementation while a read is in flight")
			}
		}
	}
	if nread == 0 {
		r.Unk(rule, "Transport.read lock", c.Pos(tread.Pos()), "Transport.read does not call Implementation.Read")
	}
	// 5. driver Close -> Channel.Close
	gClose := c.LookupFunc("driver/generic", "Driver", "Close")
	nClose := c.LookupFunc("driver/network", "Driver", "Close")
	ncClose := c.LookupFunc("driver/netconf", "Driver", "Close")
	type dc struct {
		name   string
		fn     *ssa.Function
		target *ssa.Function
	}
	for _, d := range []dc{{"generic.Driver.Close -> Channel.Close", gClose, chClose}, {"network.Driver.Close -> generic.Driver.Close", nClose, gClose}, {"netconf.Driver.Close -> Channel.Close", ncClose, chClose}} {
		if d.fn == nil || d.target == nil {
			r.Anchor(rule, d.name)
			continue
		}
		if ret, rr := mustCallBeforeReturn(c, d.fn, callsTo(d.target)); ret != nil {
			r.Bad(rule, d.name, c.Pos(ret.Pos()), "the driver's Close can return without closing the channel/transport: connection and reader goroutine are leaked", rr.witness(c, ret)...)
		} else {
			r.OK(rule, d.name, c.Pos(d.fn.Pos()), "on every path")
		}
	}
	// 6. Transport.Close -> Implementation.Close on every path (whatever the implementation says about its liveness:
	// a peer that went away leaves a descriptor / child process behind that only Close releases)
	implClose := func(in ssa.Instruction) bool {
		var cc *ssa.CallCommon
		switch x := in.(type) {
		case *ssa.Call:
			cc = &x.Call
		case *ssa.Defer:
			cc = &x.Call
		default:
			return false
		}
		if !cc.IsInvoke() || cc.Method.Name() != "Close" {
			return false
		}
		n, ok := cc.Value.Type().(*types.Named)
		return ok && n.Obj().Name() == "Implementation" && n.Obj().Pkg() != nil && strings.HasSuffix(n.Obj().Pkg().Path(), "/transport")
	}
	if ret, rr := mustCallBeforeReturn(c, tClose, implClose); ret != nil {
		r.Bad(rule, "Transport.Close -> Implementation.Close", c.Pos(ret.Pos()), "Transport.Close can return without closing the implementation: the descriptor / child process / socket of a connection whose peer went away is never released, and a reader parked in its Read is never woken", rr.witness(c, ret)...)
	} else {
		r.OK(rule, "Transport.Close -> Implementation.Close", c.Pos(tClose.Pos()), "every return is preceded by Implementation.Close")
	}
}

// selectCaseOf: which select case index guards block b (via idx == k tests)?
func selectCaseOf(b *ssa.BasicBlock, sel *ssa.Select) (int, bool) {
	for _, ec := range edgeConds(b) {
		bo, ok := ec.Cond.(*ssa.BinOp)
		if !ok || bo.Op != token.EQL || !ec.Truth {
			continue
		}
		ex, ok := bo.X.(*ssa.Extract)
		if !ok || ex.Tuple != ssa.Value(sel) || ex.Index != 0 {
			continue
		}
		if k, ok := constInt(bo.Y); ok {
			return int(k), true
		}
	}
	return 0, false
}
