package main

// E4: interprocedural, field-based, context-insensitive taint analysis over SSA.
// Values carry taint; heap is abstracted by struct field (all instances of a
// field are one location), by allocation cell and by container value.

import (
	"fmt"
	"go/token"
	"go/types"
	"sort"
	"strings"

	"golang.org/x/tools/go/ssa"
)

type gateSpec struct {
	Fn        *ssa.Function
	DataParam int // index into Fn.Params
	FlagParam int
}

type Taint struct {
	c       *Ctx
	fns     []*ssa.Function
	vals    map[ssa.Value]bool
	fields  map[*types.Var]bool
	globals map[*ssa.Global]bool
	rets    map[*ssa.Function][]bool
	whyVal  map[ssa.Value]string
	whyFld  map[*types.Var]string
	srcFld  map[*types.Var]string // source fields -> label
	gates   map[*ssa.Function]gateSpec
	changed bool
	// tainted methods cache for Error()/String() carriers
	iter int
}

func NewTaint(c *Ctx, sources map[*types.Var]string, gates []gateSpec) *Taint {
	t := &Taint{c: c, vals: map[ssa.Value]bool{}, fields: map[*types.Var]bool{}, globals: map[*ssa.Global]bool{},
		rets: map[*ssa.Function][]bool{}, whyVal: map[ssa.Value]string{}, whyFld: map[*types.Var]string{},
		srcFld: sources, gates: map[*ssa.Function]gateSpec{}}
	for _, g := range gates {
		t.gates[g.Fn] = g
	}
	// a helper of the gate's package that is handed both the data and the flag is a gate itself (e.g. the choice
	// between the data and the redaction marker moved into its own function)
	for changed := true; changed; {
		changed = false
		for _, g := range t.gates {
			if g.DataParam >= len(g.Fn.Params) || g.FlagParam >= len(g.Fn.Params) {
				continue
			}
			data, flag := ssa.Value(g.Fn.Params[g.DataParam]), ssa.Value(g.Fn.Params[g.FlagParam])
			for _, ci := range callInstrs(g.Fn) {
				h := ci.Common().StaticCallee()
				if h == nil || h.Pkg != g.Fn.Pkg || h.Object() == nil || h.Object().Exported() || len(h.Blocks) == 0 {
					continue
				}
				if _, done := t.gates[h]; done {
					continue
				}
				di, fi := -1, -1
				for ai, a := range ci.Common().Args {
					if stripConv(a) == data {
						di = ai
					}
					if a == flag {
						fi = ai
					}
				}
				if di >= 0 && fi >= 0 && di < len(h.Params) && fi < len(h.Params) {
					t.gates[h] = gateSpec{Fn: h, DataParam: di, FlagParam: fi}
					changed = true
				}
			}
		}
	}
	t.fns = c.LibFns
	for f, l := range sources {
		t.fields[f] = true
		t.whyFld[f] = "source " + l
	}
	return t
}

func (t *Taint) markVal(v ssa.Value, why string) {
	if v == nil || t.vals[v] {
		return
	}
	if _, ok := v.(*ssa.Const); ok {
		return
	}
	t.vals[v] = true
	t.whyVal[v] = why
	t.changed = true
}

func (t *Taint) markField(f *types.Var, why string) {
	if t.fields[f] {
		return
	}
	t.fields[f] = true
	t.whyFld[f] = why
	t.changed = true
}

func (t *Taint) is(v ssa.Value) bool { return t.vals[v] }

func (t *Taint) pos(in ssa.Instruction) string {
	return t.c.Pos(in.Pos())
}

// structHasTaintedField: value of struct type t exposes a tainted field (nested struct values included).
func (t *Taint) structHasTaintedField(ty types.Type, depth int) bool {
	if depth > 4 {
		return false
	}
	st, ok := ty.Underlying().(*types.Struct)
	if !ok {
		return false
	}
	for i := 0; i < st.NumFields(); i++ {
		f := st.Field(i)
		if t.fields[f] {
			return true
		}
		if _, ok := f.Type().Underlying().(*types.Struct); ok && t.structHasTaintedField(f.Type(), depth+1) {
			return true
		}
	}
	return false
}

// exposes: would formatting a value of this static type print tainted field contents?
func (t *Taint) exposes(ty types.Type, depth int) bool {
	if depth > 5 {
		return false
	}
	switch u := ty.Underlying().(type) {
	case *types.Pointer:
		if depth == 0 {
			return t.exposes(u.Elem(), depth+1)
		}
		return false // nested pointers print as addresses
	case *types.Struct:
		for i := 0; i < u.NumFields(); i++ {
			f := u.Field(i)
			if t.fields[f] {
				return true
			}
			if t.exposes(f.Type(), depth+1) {
				return true
			}
		}
	case *types.Slice:
		return t.exposes(u.Elem(), depth+1)
	case *types.Array:
		return t.exposes(u.Elem(), depth+1)
	case *types.Map:
		return t.exposes(u.Elem(), depth+1) || t.exposes(u.Key(), depth+1)
	}
	return false
}

// carrierMethodTainted: type has an Error/String method (module) whose result is tainted.
func (t *Taint) carrierMethodTainted(ty types.Type) bool {
	ms := t.c.Prog.MethodSets.MethodSet(ty)
	for i := 0; i < ms.Len(); i++ {
		sel := ms.At(i)
		n := sel.Obj().Name()
		if n != "Error" && n != "String" {
			continue
		}
		fn := t.c.Prog.MethodValue(sel)
		if fn == nil {
			continue
		}
		if r := t.rets[fn]; len(r) > 0 && r[0] {
			return true
		}
	}
	return false
}

func isFmtLike(o *types.Func) bool {
	if o == nil || o.Pkg() == nil {
		return false
	}
	switch o.Pkg().Path() {
	case "fmt", "errors":
		return true
	}
	return false
}

// Run iterates to a fixpoint.
func (t *Taint) Run() {
	for {
		t.changed = false
		t.iter++
		for _, fn := range t.fns {
			t.stepFn(fn)
		}
		if !t.changed || t.iter > 60 {
			break
		}
	}
}

func (t *Taint) guardedPhiEdge(fn *ssa.Function, phi *ssa.Phi, edge int) bool {
	g, ok := t.gates[fn]
	if !ok {
		return false
	}
	flag := ssa.Value(fn.Params[g.FlagParam])
	pred := phi.Block().Preds[edge]
	// direct false edge of `if flag`
	if cond := ifCond(pred); cond != nil {
		v, neg := unwrapNot(cond)
		if v == flag && len(pred.Succs) == 2 {
			falseSucc := pred.Succs[1]
			if neg {
				falseSucc = pred.Succs[0]
			}
			if falseSucc == phi.Block() && pred.Succs[0] != pred.Succs[1] {
				return true
			}
		}
	}
	for _, ec := range edgeConds(pred) {
		v, neg := unwrapNot(ec.Cond)
		truth := ec.Truth
		if neg {
			truth = !truth
		}
		if v == flag && !truth {
			return true
		}
	}
	return false
}

func (t *Taint) stepFn(fn *ssa.Function) {
	for _, b := range fn.Blocks {
		for _, in := range b.Instrs {
			t.stepInstr(fn, in)
		}
	}
}

func (t *Taint) anyOperand(in ssa.Instruction) (ssa.Value, bool) {
	var buf [8]*ssa.Value
	for _, op := range in.Operands(buf[:0]) {
		if *op != nil && t.vals[*op] {
			return *op, true
		}
	}
	return nil, false
}

func (t *Taint) stepInstr(fn *ssa.Function, in ssa.Instruction) {
	switch x := in.(type) {
	case *ssa.Phi:
		for i, e := range x.Edges {
			if t.vals[e] && !t.guardedPhiEdge(fn, x, i) {
				t.markVal(x, "phi at "+t.pos(x))
			}
		}
	case *ssa.UnOp:
		if x.Op == token.MUL { // load
			switch a := x.X.(type) {
			case *ssa.FieldAddr:
				f := fieldOfAddr(a)
				if t.fields[f] {
					t.markVal(x, fmt.Sprintf("load of field %s.%s at %s (%s)", typeShort(a.X.Type()), f.Name(), t.pos(x), t.whyFld[f]))
				}
				if t.vals[a] {
					t.markVal(x, "load through tainted address at "+t.pos(x))
				}
			case *ssa.Global:
				if t.globals[a] {
					t.markVal(x, "load of tainted global "+a.Name())
				}
			default:
				if t.vals[x.X] {
					t.markVal(x, "load from tainted cell at "+t.pos(x))
				}
			}
			// whole-struct load exposing tainted fields
			if _, ok := x.Type().Underlying().(*types.Struct); ok && t.structHasTaintedField(x.Type(), 0) {
				t.markVal(x, "load of a struct value with a tainted field at "+t.pos(x))
			}
		} else if t.vals[x.X] {
			t.markVal(x, "unop at "+t.pos(x))
		}
	case *ssa.Field:
		st := x.X.Type().Underlying().(*types.Struct)
		if t.fields[st.Field(x.Field)] || t.vals[x.X] {
			t.markVal(x, "field read at "+t.pos(x))
		}
	case *ssa.FieldAddr:
		// address of a field: not tainted by itself (field-based)
	case *ssa.IndexAddr:
		if t.vals[x.X] {
			t.markVal(x, "element address of tainted container at "+t.pos(x))
		}
	case *ssa.Store:
		if !t.vals[x.Val] {
			// storing a struct value with tainted fields etc. is covered by the load rule
			return
		}
		switch a := x.Addr.(type) {
		case *ssa.FieldAddr:
			f := fieldOfAddr(a)
			t.markField(f, fmt.Sprintf("store at %s of %s", t.pos(x), t.whyVal[x.Val]))
		case *ssa.IndexAddr:
			t.markVal(a.X, "element store at "+t.pos(x))
			t.markVal(a, "element store at "+t.pos(x))
			// propagate to the underlying array/slice origin
			t.taintContainerOrigin(a.X, "element store at "+t.pos(x))
		case *ssa.Global:
			if !t.globals[a] {
				t.globals[a] = true
				t.changed = true
			}
		default:
			t.markVal(x.Addr, "store into cell at "+t.pos(x))
		}
	case *ssa.MapUpdate:
		if t.vals[x.Value] || t.vals[x.Key] {
			t.markVal(x.Map, "map update at "+t.pos(x))
			t.taintContainerOrigin(x.Map, "map update at "+t.pos(x))
		}
	case *ssa.Send:
		if t.vals[x.X] {
			t.markVal(x.Chan, "send at "+t.pos(x))
			t.taintContainerOrigin(x.Chan, "send at "+t.pos(x))
		}
	case *ssa.MakeInterface:
		if t.vals[x.X] {
			t.markVal(x, "boxed at "+t.pos(x))
		} else if t.carrierMethodTainted(x.X.Type()) {
			t.markVal(x, fmt.Sprintf("boxed %s whose Error/String method returns tainted data", typeShort(x.X.Type())))
		}
	case *ssa.MakeClosure:
		f, _ := x.Fn.(*ssa.Function)
		if f != nil {
			for i, b := range x.Bindings {
				if t.vals[b] && i < len(f.FreeVars) {
					t.markVal(f.FreeVars[i], "captured at "+t.pos(x))
				}
			}
		}
	case *ssa.Extract:
		if call, ok := x.Tuple.(*ssa.Call); ok {
			if t.callResultTainted(call, x.Index) {
				t.markVal(x, "result of call at "+t.pos(call))
			}
		} else if t.vals[x.Tuple] {
			t.markVal(x, "extract at "+t.pos(x))
		}
	case *ssa.Call:
		t.stepCall(fn, x, x)
		if x.Call.Signature().Results().Len() == 1 && t.callResultTainted(x, 0) {
			t.markVal(x, "result of call at "+t.pos(x))
		}
	case *ssa.Go:
		t.stepCall(fn, x, nil)
	case *ssa.Defer:
		t.stepCall(fn, x, nil)
	case *ssa.Return:
		r := t.rets[fn]
		if r == nil {
			r = make([]bool, len(x.Results))
			t.rets[fn] = r
		}
		// in a gate, what is returned on the flag-false edge is the un-redacted alternative: guarded like a phi edge
		if g, isGate := t.gates[fn]; isGate && g.FlagParam < len(fn.Params) {
			flag := ssa.Value(fn.Params[g.FlagParam])
			for _, ec := range edgeConds(x.Block()) {
				v, neg := unwrapNot(ec.Cond)
				truth := ec.Truth
				if neg {
					truth = !truth
				}
				if v == flag && !truth {
					return
				}
			}
		}
		for i, v := range x.Results {
			if i < len(r) && t.vals[v] && !r[i] {
				r[i] = true
				t.changed = true
			}
		}
	case *ssa.Select:
		for _, st := range x.States {
			if st.Dir == types.SendOnly && st.Send != nil && t.vals[st.Send] {
				t.markVal(st.Chan, "select send at "+t.pos(x))
			}
			if st.Dir == types.RecvOnly && t.vals[st.Chan] {
				t.markVal(x, "select receive from tainted channel at "+t.pos(x))
			}
		}
	case *ssa.RunDefers, *ssa.Jump, *ssa.If, *ssa.Panic, *ssa.DebugRef:
	case *ssa.TypeAssert:
		if t.vals[x.X] {
			t.markVal(x, "type assertion at "+t.pos(x))
		}
	case *ssa.Range:
		if t.vals[x.X] {
			t.markVal(x, "range at "+t.pos(x))
		}
	case *ssa.Next:
		if t.vals[x.Iter] {
			t.markVal(x, "range next at "+t.pos(x))
		}
	case *ssa.Alloc, *ssa.MakeChan, *ssa.MakeMap, *ssa.MakeSlice:
		// cells: tainted by stores
	default:
		// BinOp, Convert, ChangeType, ChangeInterface, Slice, Index, Lookup, SliceToArrayPointer, MultiConvert...
		if v, ok := in.(ssa.Value); ok {
			if src, hit := t.anyOperand(in); hit {
				_ = src
				// comparisons yield booleans: no data flows
				if bo, ok := in.(*ssa.BinOp); ok {
					switch bo.Op {
					case token.EQL, token.NEQ, token.LSS, token.LEQ, token.GTR, token.GEQ:
						return
					}
				}
				t.markVal(v, fmt.Sprintf("%T at %s", in, t.pos(in)))
			}
		}
	}
}

// taintContainerOrigin propagates container taint back through slices/converts to the allocation.
func (t *Taint) taintContainerOrigin(v ssa.Value, why string) {
	for i := 0; i < 6; i++ {
		switch x := v.(type) {
		case *ssa.Slice:
			t.markVal(x.X, why)
			v = x.X
		case *ssa.ChangeType:
			t.markVal(x.X, why)
			v = x.X
		case *ssa.UnOp:
			// loaded from a field: taint the field (container stored in a field)
			if x.Op == token.MUL {
				if fa, ok := x.X.(*ssa.FieldAddr); ok {
					t.markField(fieldOfAddr(fa), why)
				} else {
					t.markVal(x.X, why)
				}
			}
			return
		default:
			return
		}
	}
}

// callResultTainted: is result idx of call tainted?
func (t *Taint) callResultTainted(call *ssa.Call, idx int) bool {
	cc := call.Common()
	if b, ok := cc.Value.(*ssa.Builtin); ok {
		switch b.Name() {
		case "append", "min", "max":
			for _, a := range cc.Args {
				if t.vals[a] {
					return true
				}
			}
		}
		return false
	}
	callees := t.c.Callees(call)
	lib := false
	for _, f := range callees {
		if f.Blocks != nil && f.Pkg != nil && isLibPkgPath(f.Pkg.Pkg.Path()) {
			lib = true
			if r := t.rets[f]; idx < len(r) && r[idx] {
				return true
			}
		}
	}
	if lib {
		return false
	}
	// external (or unresolved dynamic) call
	res := cc.Signature().Results()
	if idx < res.Len() && isErrorType(res.At(idx).Type()) && !isFmtLike(CalleeObj(call)) {
		return false // A1
	}
	for _, a := range cc.Args {
		if t.vals[a] {
			return true
		}
	}
	if cc.IsInvoke() && t.vals[cc.Value] {
		return true
	}
	if !cc.IsInvoke() && cc.StaticCallee() == nil && t.vals[cc.Value] {
		return true
	}
	return false
}

// stepCall binds tainted arguments to the parameters of library callees.
func (t *Taint) stepCall(fn *ssa.Function, ci ssa.CallInstruction, val *ssa.Call) {
	cc := ci.Common()
	if b, ok := cc.Value.(*ssa.Builtin); ok {
		if b.Name() == "copy" && len(cc.Args) == 2 && t.vals[cc.Args[1]] {
			t.markVal(cc.Args[0], "copy at "+t.pos(ci))
			t.taintContainerOrigin(cc.Args[0], "copy at "+t.pos(ci))
		}
		return
	}
	callees := t.c.Callees(ci)
	for _, f := range callees {
		if f.Blocks == nil || f.Pkg == nil || !isLibPkgPath(f.Pkg.Pkg.Path()) {
			continue
		}
		args := cc.Args
		params := f.Params
		off := 0
		if cc.IsInvoke() {
			// receiver is cc.Value
			if len(params) > 0 && t.vals[cc.Value] {
				t.markVal(params[0], "receiver at "+t.pos(ci))
			}
			off = 1
		} else if len(args) == len(params)-1 && f.Signature.Recv() != nil {
			off = 1 // bound-method value: receiver captured
		}
		for i, a := range args {
			if i+off < len(params) && t.vals[a] {
				t.markVal(params[i+off], fmt.Sprintf("argument %d of call at %s (%s)", i, t.pos(ci), t.whyVal[a]))
			}
		}
		// closures called directly: free vars handled at MakeClosure
	}
}

// ---- sinks --------------------------------------------------------------------

type sinkHit struct {
	Instr ssa.CallInstruction
	Arg   int
	Why   string
	Sink  string
}

// argTaintedForSink: a value passed to a formatting sink leaks if it is tainted
// or its static type exposes a tainted field when printed.
func (t *Taint) argLeaks(v ssa.Value) (bool, string) {
	if t.vals[v] {
		return true, t.whyVal[v]
	}
	inner := v
	if mi, ok := v.(*ssa.MakeInterface); ok {
		inner = mi.X
	}
	if t.vals[inner] {
		return true, t.whyVal[inner]
	}
	if t.exposes(inner.Type(), 0) {
		return true, "value of type " + typeShort(inner.Type()) + " prints a tainted field"
	}
	return false, ""
}

// variadicElems returns the element values packed into a variadic slice argument.
func variadicElems(v ssa.Value) []ssa.Value {
	sl, ok := v.(*ssa.Slice)
	if !ok {
		return []ssa.Value{v}
	}
	a, ok := sl.X.(*ssa.Alloc)
	if !ok {
		return []ssa.Value{v}
	}
	var out []ssa.Value
	for _, ref := range *a.Referrers() {
		if ia, ok := ref.(*ssa.IndexAddr); ok {
			for _, r2 := range *ia.Referrers() {
				if st, ok := r2.(*ssa.Store); ok {
					out = append(out, st.Val)
				}
			}
		}
	}
	out = append(out, v)
	return out
}

// FindSinkHits evaluates the sink predicate over all library call sites.
func (t *Taint) FindSinkHits(isSink func(ci ssa.CallInstruction) (string, []int)) (hits []sinkHit, sites int) {
	for _, fn := range t.fns {
		for _, ci := range callInstrs(fn) {
			name, argIdx := isSink(ci)
			if name == "" {
				continue
			}
			sites++
			args := ci.Common().Args
			for _, i := range argIdx {
				if i >= len(args) {
					continue
				}
				for _, e := range variadicElems(args[i]) {
					if leak, why := t.argLeaks(e); leak {
						hits = append(hits, sinkHit{Instr: ci, Arg: i, Why: why, Sink: name})
						break
					}
				}
			}
		}
	}
	return hits, sites
}

// TaintedFieldNames lists tainted fields for evidence.
func (t *Taint) TaintedFieldNames() []string {
	var out []string
	for f := range t.fields {
		owner := "?"
		if f.Pkg() != nil {
			owner = f.Pkg().Name()
		}
		out = append(out, owner+"."+t.fieldOwner(f)+f.Name())
	}
	sort.Strings(out)
	return out
}

func (t *Taint) fieldOwner(f *types.Var) string {
	// find the named struct that declares f (library + deps scanned lazily)
	for _, p := range t.c.Pkgs {
		if p.Types == nil || f.Pkg() != p.Types {
			continue
		}
		sc := p.Types.Scope()
		for _, n := range sc.Names() {
			tn, ok := sc.Lookup(n).(*types.TypeName)
			if !ok {
				continue
			}
			st, ok := tn.Type().Underlying().(*types.Struct)
			if !ok {
				continue
			}
			for i := 0; i < st.NumFields(); i++ {
				if st.Field(i) == f {
					return n + "."
				}
			}
		}
	}
	return ""
}

func describeCall(c *Ctx, ci ssa.CallInstruction) string {
	if o := CalleeObj(ci); o != nil {
		recv := ""
		if sig, ok := o.Type().(*types.Signature); ok && sig.Recv() != nil {
			recv = typeShort(sig.Recv().Type()) + "."
		}
		return recv + o.Name()
	}
	return strings.TrimSpace(ci.String())
}
