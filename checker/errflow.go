package main

// Error-discipline helpers (E2/E4): does the error result of a call surface to the
// caller (returned, sent on a channel, stored in a result object that is returned/sent)
// without the operation carrying on as if nothing happened?

import (
	"fmt"
	"go/token"
	"go/types"

	"golang.org/x/tools/go/ssa"
)

// ioCapable: library functions with an error result that can reach a transport read/write
// (or the channel's queue read), i.e. functions whose failure means the connection failed.
func (c *Ctx) ioCapable() map[*ssa.Function]bool {
	base := []*ssa.Function{
		c.LookupFunc("transport", "Transport", "read"),
		c.LookupFunc("transport", "Transport", "Write"),
		c.LookupFunc("channel", "Channel", "Read"),
		c.LookupFunc("channel", "Channel", "ReadAll"),
	}
	isBase := map[*ssa.Function]bool{}
	for _, b := range base {
		if b != nil {
			isBase[b] = true
		}
	}
	// reverse reachability over the call graph restricted to library functions
	callers := map[*ssa.Function][]*ssa.Function{}
	for _, fn := range c.LibFns {
		for _, ci := range callInstrs(fn) {
			for _, callee := range c.Callees(ci) {
				if !c.optionEdgeFeasible(ci, callee) {
					continue
				}
				callers[callee] = append(callers[callee], fn)
			}
		}
	}
	reach := map[*ssa.Function]bool{}
	var work []*ssa.Function
	for b := range isBase {
		reach[b] = true
		work = append(work, b)
	}
	for len(work) > 0 {
		f := work[len(work)-1]
		work = work[:len(work)-1]
		for _, cl := range callers[f] {
			if !reach[cl] {
				reach[cl] = true
				work = append(work, cl)
			}
		}
	}
	out := map[*ssa.Function]bool{}
	for f := range reach {
		if f.Pkg == nil || !isLibPkgPath(f.Pkg.Pkg.Path()) {
			continue
		}
		res := f.Signature.Results()
		if res.Len() > 0 && isErrorType(res.At(res.Len()-1).Type()) {
			out[f] = true
		}
	}
	return out
}

// carriesErr: does value v carry error e (e itself, a phi/conversion of it, fmt.Errorf wrapping it,
// or a freshly built struct with e stored in a field)?
func carriesErr(v, e ssa.Value, depth int) bool {
	if v == e {
		return true
	}
	if depth > 5 || v == nil {
		return false
	}
	switch x := v.(type) {
	case *ssa.Phi:
		for _, ed := range x.Edges {
			if carriesErr(ed, e, depth+1) {
				return true
			}
		}
	case *ssa.MakeInterface:
		return carriesErr(x.X, e, depth+1)
	case *ssa.ChangeInterface:
		return carriesErr(x.X, e, depth+1)
	case *ssa.Call:
		if o := CalleeObj(x); o != nil && o.Pkg() != nil && o.Pkg().Path() == "fmt" && o.Name() == "Errorf" {
			for _, a := range x.Call.Args {
				for _, el := range variadicElems(a) {
					if carriesErr(el, e, depth+1) {
						return true
					}
				}
			}
		}
	case *ssa.Alloc:
		// struct literal with a field holding e
		for _, ref := range *x.Referrers() {
			if fa, ok := ref.(*ssa.FieldAddr); ok {
				for _, r2 := range *fa.Referrers() {
					if st, ok := r2.(*ssa.Store); ok && carriesErr(st.Val, e, depth+1) {
						return true
					}
				}
			}
			if st, ok := ref.(*ssa.Store); ok && st.Addr == ssa.Value(x) && carriesErr(st.Val, e, depth+1) {
				return true
			}
		}
	case *ssa.UnOp:
		if x.Op == token.MUL {
			// load of a cell (captured/named variable) that e was stored to
			switch a := x.X.(type) {
			case *ssa.Alloc:
				for _, ref := range *a.Referrers() {
					if st, ok := ref.(*ssa.Store); ok && st.Addr == ssa.Value(a) && carriesErr(st.Val, e, depth+1) {
						return true
					}
				}
			case *ssa.FreeVar:
				for _, ref := range *a.Referrers() {
					if st, ok := ref.(*ssa.Store); ok && st.Addr == ssa.Value(a) && carriesErr(st.Val, e, depth+1) {
						return true
					}
				}
			}
		}
	}
	return false
}

// aliasesOfErr: e plus loads of cells e is stored into (captured `err` variables).
func aliasesOfErr(fn *ssa.Function, e ssa.Value) []ssa.Value {
	out := []ssa.Value{e}
	for _, ref := range *e.Referrers() {
		st, ok := ref.(*ssa.Store)
		if !ok || st.Val != e {
			continue
		}
		cell := st.Addr
		switch cell.(type) {
		case *ssa.Alloc, *ssa.FreeVar:
		default:
			continue
		}
		allInstrs(fn, func(in ssa.Instruction) {
			if u, ok := in.(*ssa.UnOp); ok && u.Op == token.MUL && u.X == cell {
				// only loads that this store reaches without an intervening store: approximate by dominance
				if dominatesInstr(st, u) {
					out = append(out, u)
				}
			}
		})
	}
	return out
}

type errSurface struct {
	OK  bool
	How string
	Msg string
}

// errSurfaces decides whether the error result of call (in fn) surfaces.
// isIO tells which calls count as "carrying on with the connection".
func errSurfaces(c *Ctx, fn *ssa.Function, call *ssa.Call, isIO func(ssa.CallInstruction) bool) errSurface {
	errs := errResultsOf(call)
	if len(errs) == 0 {
		// is the error result extracted at all?
		sig := call.Call.Signature()
		n := sig.Results().Len()
		if n > 0 && isErrorType(sig.Results().At(n-1).Type()) {
			// single-result call used directly?
			if n == 1 {
				errs = []ssa.Value{call}
			} else {
				return errSurface{Msg: "the error result is discarded"}
			}
		} else {
			return errSurface{OK: true, How: "no error result"}
		}
	}
	e := errs[0]
	if e.Referrers() == nil || len(*e.Referrers()) == 0 {
		return errSurface{Msg: "the error result is discarded"}
	}
	al := aliasesOfErr(fn, e)
	// phis merging the error with other values (switch/if-else assigning the same variable)
	for changed := true; changed; {
		changed = false
		allInstrs(fn, func(in ssa.Instruction) {
			phi, ok := in.(*ssa.Phi)
			if !ok {
				return
			}
			for _, a := range al {
				if a == ssa.Value(phi) {
					return
				}
			}
			for _, ed := range phi.Edges {
				for _, a := range al {
					if ed == a {
						al = append(al, phi)
						changed = true
						return
					}
				}
			}
		})
	}
	isAlias := func(v ssa.Value) bool {
		for _, a := range al {
			if a == v {
				return true
			}
		}
		return false
	}
	carries := func(v ssa.Value) bool {
		for _, a := range al {
			if carriesErr(v, a, 0) {
				return true
			}
		}
		return false
	}
	// sinks
	isSink := func(in ssa.Instruction) (bool, string) {
		switch x := in.(type) {
		case *ssa.Return:
			// defer-spilled results: `*cell = v; rundefers; t = *cell; return t` -- look at what this block stored
			results := make([]ssa.Value, len(x.Results))
			for i, rv := range x.Results {
				results[i] = rv
				if u, ok := rv.(*ssa.UnOp); ok && u.Op == token.MUL {
					if a, ok := u.X.(*ssa.Alloc); ok {
						if v := lastStoreBefore(a, u); v != nil {
							results[i] = v
						}
					}
				}
			}
			for _, rv := range results {
				if carries(rv) {
					return true, "returned"
				}
			}
			// returns some other non-nil error
			for _, rv := range results {
				if isErrorType(rv.Type()) && !isNilConst(rv) {
					if _, isPhi := rv.(*ssa.Phi); !isPhi {
						return true, "another non-nil error returned"
					}
				}
			}
		case *ssa.Send:
			if carries(x.X) {
				return true, "sent on a channel"
			}
		}
		return false, ""
	}
	// find the nil tests on any alias
	type test struct {
		blk  *ssa.BasicBlock
		succ *ssa.BasicBlock
	}
	var tests []test
	for _, b := range fn.Blocks {
		cond := ifCond(b)
		if cond == nil {
			continue
		}
		x, nonNilOnTrue, ok := nilCheck(cond)
		if !ok || !isAlias(x) {
			continue
		}
		succ := b.Succs[1]
		if nonNilOnTrue {
			succ = b.Succs[0]
		}
		tests = append(tests, test{b, succ})
	}
	if len(tests) == 0 {
		// unconditional forwarding: some sink carrying e must post-dominate the call
		rr := reachFrom(fn, call, func(in ssa.Instruction) bool { ok, _ := isSink(in); return ok }, nil)
		for in := range rr.visited {
			if ok, _ := isSink(in); ok {
				continue
			}
			if isReturn(in) {
				return errSurface{Msg: fmt.Sprintf("the error is never tested and a path reaches the return at %s without forwarding it", c.Pos(in.Pos()))}
			}
		}
		return errSurface{OK: true, How: "forwarded unconditionally"}
	}
	hasErrResult := false
	res := fn.Signature.Results()
	for i := 0; i < res.Len(); i++ {
		if isErrorType(res.At(i).Type()) {
			hasErrResult = true
		}
	}
	for _, t := range tests {
		start := t.succ.Instrs[0]
		stop := func(in ssa.Instruction) bool {
			if ok, _ := isSink(in); ok {
				return true
			}
			return isReturn(in)
		}
		rr := reachFrom(fn, start, stop, nil)
		visit := func(in ssa.Instruction) *errSurface {
			if ok, _ := isSink(in); ok {
				return nil
			}
			if isReturn(in) {
				if !hasErrResult {
					// goroutine body / void function: returning is all it can do
					return nil
				}
				// returns a struct that carries the error? handled by carries(); else:
				return &errSurface{Msg: fmt.Sprintf("after the failure a path reaches the return at %s without an error", c.Pos(in.Pos()))}
			}
			if in == ssa.Instruction(call) {
				return &errSurface{Msg: "after the failure the operation loops back and retries the same call instead of returning the error"}
			}
			if snd, ok := in.(*ssa.Send); ok && resultTypeHasErrorField(snd.X.Type()) {
				return &errSurface{Msg: fmt.Sprintf("after the failure a result that does not carry the error is handed to the caller at %s (success with truncated output)", c.Pos(in.Pos()))}
			}
			if ci, ok := in.(ssa.CallInstruction); ok && isIO != nil && isIO(ci) && in != ssa.Instruction(call) {
				return &errSurface{Msg: fmt.Sprintf("after the failure the operation carries on with further I/O at %s", c.Pos(in.Pos()))}
			}
			return nil
		}
		if r := visit(start); r != nil {
			return *r
		}
		if !stop(start) {
			for in := range rr.visited {
				if r := visit(in); r != nil {
					return *r
				}
			}
		}
	}
	return errSurface{OK: true, How: "tested; failing edge returns/sends it"}
}

func hasErrorResult(sig *types.Signature) bool {
	n := sig.Results().Len()
	return n > 0 && isErrorType(sig.Results().At(n-1).Type())
}

// resultTypeHasErrorField: *struct (or struct) with a field of type error — the hand-off objects of operation workers.
func resultTypeHasErrorField(t types.Type) bool {
	if p, ok := t.Underlying().(*types.Pointer); ok {
		t = p.Elem()
	}
	st, ok := t.Underlying().(*types.Struct)
	if !ok {
		return false
	}
	for i := 0; i < st.NumFields(); i++ {
		if isErrorType(st.Field(i).Type()) {
			return true
		}
	}
	return false
}
