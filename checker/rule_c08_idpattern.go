package main

// C08/id-pattern — the pattern that extracts a reply's message-id takes the FIRST message-id attribute of the
// buffer it is applied to (the one of the rpc-reply start tag), not a later one quoted in the payload.

import (
	"regexp/syntax"

	"golang.org/x/tools/go/ssa"
)

// greedySkipBeforeCapture: in the concatenation that contains the (first) capturing group, is there -- before it --
// a greedy, unbounded repetition whose operand admits the byte b? Such a repetition lets the match run past an
// earlier occurrence of the literal that precedes the capture and bind the capture to the LAST occurrence.
func greedySkipBeforeCapture(re *syntax.Regexp, b rune) (found bool, hasCapture bool) {
	var admits func(x *syntax.Regexp) bool
	admits = func(x *syntax.Regexp) bool {
		switch x.Op {
		case syntax.OpAnyChar, syntax.OpAnyCharNotNL:
			return true
		case syntax.OpCharClass:
			for i := 0; i+1 < len(x.Rune); i += 2 {
				if x.Rune[i] <= b && b <= x.Rune[i+1] {
					return true
				}
			}
		case syntax.OpLiteral:
			for _, r := range x.Rune {
				if r == b {
					return true
				}
			}
		case syntax.OpCapture, syntax.OpConcat, syntax.OpAlternate, syntax.OpStar, syntax.OpPlus, syntax.OpQuest, syntax.OpRepeat:
			for _, s := range x.Sub {
				if admits(s) {
					return true
				}
			}
		}
		return false
	}
	var containsCapture func(x *syntax.Regexp) bool
	containsCapture = func(x *syntax.Regexp) bool {
		if x.Op == syntax.OpCapture {
			return true
		}
		for _, s := range x.Sub {
			if containsCapture(s) {
				return true
			}
		}
		return false
	}
	var greedyIn func(x *syntax.Regexp) bool
	greedyIn = func(x *syntax.Regexp) bool {
		switch x.Op {
		case syntax.OpStar, syntax.OpPlus:
			if x.Flags&syntax.NonGreedy == 0 && admits(x.Sub[0]) {
				return true
			}
		case syntax.OpRepeat:
			if x.Flags&syntax.NonGreedy == 0 && (x.Max == -1 || x.Max > 1) && admits(x.Sub[0]) {
				return true
			}
		}
		for _, s := range x.Sub {
			if greedyIn(s) {
				return true
			}
		}
		return false
	}
	var walk func(x *syntax.Regexp)
	walk = func(x *syntax.Regexp) {
		if x.Op == syntax.OpConcat {
			for i, s := range x.Sub {
				if containsCapture(s) {
					hasCapture = true
					for _, before := range x.Sub[:i] {
						if greedyIn(before) {
							found = true
						}
					}
					walk(s)
					return
				}
			}
			return
		}
		if x.Op == syntax.OpCapture {
			hasCapture = true
			return
		}
		for _, s := range x.Sub {
			if containsCapture(s) {
				walk(s)
				return
			}
		}
	}
	walk(re)
	return found, hasCapture
}

func checkIDPattern(c *Ctx, r *Report) {
	rule := "C08/id-pattern"
	pat, at := patternOfField(c, "messageID")
	if at == nil {
		r.Anchor(rule, "netconfPatterns.messageID = regexp.MustCompile(<constant>)")
		return
	}
	re, err := syntax.Parse(pat, syntax.Perl)
	if err != nil {
		r.Bad(rule, "message-id pattern", c.Pos(at.Pos()), "the message-id pattern does not compile: "+err.Error())
		return
	}
	skip, hasCap := greedySkipBeforeCapture(re, 'm')
	switch {
	case !hasCap:
		r.Unk(rule, "message-id pattern", c.Pos(at.Pos()), "the message-id pattern has no capturing group")
	case skip:
		r.Bad(rule, "message-id pattern", c.Pos(at.Pos()), "a greedy wildcard precedes the captured id: the match runs to the LAST message-id=\"N\" it can reach, so a reply whose data quotes another request's message-id is filed under that id (the caller of the quoted id receives this reply, the real caller times out); without (?s) a start tag spread over two lines yields no id at all")
	default:
		r.OK(rule, "message-id pattern", c.Pos(at.Pos()), "nothing before the captured id can skip an earlier message-id attribute")
	}
	_ = ssa.Value(nil)
}
