package main

// Rules added after the tenth round of independently seeded changes.

import (
	"fmt"
	"go/constant"
	"go/token"
	"go/types"
	"regexp"
	"regexp/syntax"
	"sort"
	"strings"

	"golang.org/x/tools/go/ssa"
)

// ---- every constant pattern the library compiles is a valid expression ------------------------------------------

func checkPatternsCompile(c *Ctx, r *Report, rule string, pkgs []string) {
	n, bad := 0, 0
	for _, fn := range c.LibFns {
		if fn.Pkg == nil || strings.HasPrefix(c.Pos(fn.Pos()), "util/testclean.go") {
			continue
		}
		if len(pkgs) > 0 {
			in := false
			for _, q := range pkgs {
				if strings.HasSuffix(fn.Pkg.Pkg.Path(), "/"+q) {
					in = true
				}
			}
			if !in {
				continue
			}
		}
		for _, ci := range callInstrs(fn) {
			o := CalleeObj(ci)
			if o == nil || o.Pkg() == nil || o.Pkg().Path() != "regexp" || (o.Name() != "MustCompile" && o.Name() != "Compile") || len(ci.Common().Args) != 1 {
				continue
			}
			pat, ok := constString(ci.Common().Args[0])
			if !ok {
				continue
			}
			n++
			if _, err := syntax.Parse(pat, syntax.Perl); err != nil {
				bad++
				r.Bad(rule, fmt.Sprintf("%s pattern#%d compiles", shortFn(fn), bad), c.Pos(ci.Pos()), fmt.Sprintf("the constant pattern %q is not a valid regular expression (%v): the pattern sets are compiled lazily, on the first input that needs them, so the library panics exactly when that input arrives (an ssh client error line, a NETCONF reply) instead of reporting it", pat, err))
			}
		}
	}
	if bad == 0 {
		r.OK(rule, "constant patterns", "-", fmt.Sprintf("%d constant pattern(s) parse", n))
	}
}

// ---- C02: a chunk is appended to the result as it is ------------------------------------------------------------

func checkChunkAppendedWhole(c *Ctx, r *Report, rule string, fns []*ssa.Function) {
	n := 0
	for _, fn := range fns {
		allInstrs(fn, func(in ssa.Instruction) {
			call, ok := in.(*ssa.Call)
			if !ok || !inLoop(call.Block()) {
				return
			}
			b, ok := call.Call.Value.(*ssa.Builtin)
			if !ok || b.Name() != "append" || len(call.Call.Args) != 2 || !isByteSeq(call.Call.Args[0].Type()) || !isByteSeq(call.Call.Args[1].Type()) {
				return
			}
			// the accumulator of the decode loop (a loop-carried byte slice)
			if _, isPhi := call.Call.Args[0].(*ssa.Phi); !isPhi {
				return
			}
			n++
			construct := fmt.Sprintf("%s chunk append#%d", shortFn(fn), n)
			if isPlainSubSlice(call.Call.Args[1], 0) {
				r.OK(rule, construct, c.Pos(call.Pos()), "a sub-slice of the received data, appended as it is")
			} else {
				r.Bad(rule, construct, c.Pos(call.Pos()), "what the decode loop appends is not the chunk's slice of the received data as it is (it goes through "+describeCallee(call.Call.Args[1])+" first): payload bytes at a chunk edge are dropped or altered, so the result depends on where the server cut its chunks")
			}
		})
	}
	if n == 0 {
		r.Notes = append(r.Notes, rule+": no loop-carried byte accumulator found in the decoder; nothing decided by this rule")
	}
}

// isPlainSubSlice: v is a slice expression, or the result of a library helper that returns one on every path.
func isPlainSubSlice(v ssa.Value, depth int) bool {
	switch x := v.(type) {
	case *ssa.Slice:
		return true
	case *ssa.Call:
		h := x.Call.StaticCallee()
		if h == nil || h.Blocks == nil || depth > 1 || h.Pkg == nil || !isLibPkgPath(h.Pkg.Pkg.Path()) {
			return false
		}
		ok := false
		for _, b := range h.Blocks {
			if ret, isRet := b.Instrs[len(b.Instrs)-1].(*ssa.Return); isRet {
				if len(ret.Results) != 1 || !isPlainSubSlice(ret.Results[0], depth+1) {
					return false
				}
				ok = true
			}
		}
		return ok
	}
	return false
}

func describeCallee(v ssa.Value) string {
	if call, ok := v.(*ssa.Call); ok {
		if o := CalleeObj(call); o != nil && o.Pkg() != nil {
			return o.Pkg().Name() + "." + o.Name()
		}
	}
	return fmt.Sprintf("%T", v)
}

// ---- C03: a response's record of what was sent is written once ----------------------------------------------------

func checkResponseInputImmutable(c *Ctx, r *Report, rule string) {
	n := 0
	for _, tn := range []string{"NetconfResponse", "Response"} {
		f := c.LookupField("response", tn, "Input")
		if f == nil {
			r.Anchor(rule, "response."+tn+".Input")
			continue
		}
		for _, fn := range c.LibFns {
			k := 0
			allInstrs(fn, func(in ssa.Instruction) {
				ff, _, _, ok := fieldStore(in)
				if !ok || ff != f {
					return
				}
				n++
				k++
				root := fn
				for root.Parent() != nil {
					root = root.Parent()
				}
				construct := fmt.Sprintf("%s writes %s.Input#%d", shortFn(fn), tn, k)
				if isConstructorCode(c, root) {
					r.OK(rule, construct, c.Pos(in.Pos()), "set by the constructor from what is about to be sent")
				} else {
					r.Bad(rule, construct, c.Pos(in.Pos()), "the response's record of what was sent is rewritten after construction: what the caller reads as Input is no longer what went over the wire")
				}
			})
		}
	}
	if n == 0 {
		r.Unk(rule, "response Input", "-", "nothing sets the Input of a response")
	}
}

// ---- C06/C07: a wait inside a read-until loop observes the error channel ----------------------------------------------

// checkReadUntilWaitsPoll: inside the read-until loops the only ways to wait are Channel.Read (which polls the error
// channel and the reader's exit) and time.Sleep; a blocking wait on anything else never sees a transport error.
func checkReadUntilWaitsPoll(c *Ctx, r *Report, rule string) {
	chRead := c.LookupFunc("channel", "Channel", "Read")
	if chRead == nil {
		r.Anchor(rule, "(*channel.Channel).Read")
		return
	}
	blocks := func(fn *ssa.Function) string {
		why := ""
		allInstrs(fn, func(in ssa.Instruction) {
			switch x := in.(type) {
			case *ssa.Select:
				if x.Blocking {
					why = "a blocking select"
				}
			case *ssa.UnOp:
				if x.Op == token.ARROW {
					why = "a channel receive"
				}
			case *ssa.Send:
				why = "a channel send"
			}
		})
		return why
	}
	n := 0
	for _, name := range []string{"ReadUntilFuzzy", "ReadUntilExplicit", "ReadUntilPrompt", "ReadUntilAnyPrompt"} {
		fn := c.LookupFunc("channel", "Channel", name)
		if fn == nil {
			r.Anchor(rule, "(*channel.Channel)."+name)
			continue
		}
		loopFn := fn
		if len(chunkReads(fn, chRead)) == 0 {
			if d := readUntilDelegate(fn, chRead); d != nil {
				loopFn = d.Loop
			}
		}
		n++
		construct := shortFn(fn) + " waits only by polling"
		bad := ""
		var pos token.Pos
		for _, ci := range callInstrs(loopFn) {
			if !inLoop(ci.Block()) {
				continue
			}
			h := ci.Common().StaticCallee()
			if h == nil || h == chRead || h.Pkg == nil || !isLibPkgPath(h.Pkg.Pkg.Path()) || h.Blocks == nil {
				continue
			}
			if passesChunkThrough(h, chRead) {
				continue
			}
			if why := blocks(h); why != "" {
				bad, pos = shortFn(h)+" ("+why+")", ci.Pos()
			}
		}
		// a blocking select / receive written directly in the loop (other than the non-blocking ctx poll)
		allInstrs(loopFn, func(in ssa.Instruction) {
			if !inLoop(in.Block()) {
				return
			}
			if sel, ok := in.(*ssa.Select); ok && sel.Blocking {
				bad, pos = "a blocking select in the loop", in.Pos()
			}
		})
		if bad == "" {
			r.OK(rule, construct, c.Pos(fn.Pos()), "between two polls of Channel.Read the loop only sleeps")
		} else {
			r.Bad(rule, construct, c.Pos(pos), "the loop waits in "+bad+" instead of sleeping for the read delay and polling Channel.Read: a transport error that the reader is holding out on the error channel is never taken, so the operation waits out its whole timeout (and a later Close finds the reader still parked in its send)")
		}
	}
	if n == 0 {
		r.Unk(rule, "read-until loops", "-", "none found")
	}
}

// ---- no constructor copies reference-typed state out of a package-level value -------------------------------------

func hasRefField(t types.Type, depth int) bool {
	if depth > 3 {
		return false
	}
	switch u := t.Underlying().(type) {
	case *types.Map, *types.Pointer, *types.Chan, *types.Slice:
		return true
	case *types.Struct:
		for i := 0; i < u.NumFields(); i++ {
			if hasRefField(u.Field(i).Type(), depth+1) {
				return true
			}
		}
	}
	return false
}

func checkNoSharedDefaults(c *Ctx, r *Report, rule string) {
	bad := 0
	for _, fn := range c.LibFns {
		root := fn
		for root.Parent() != nil {
			root = root.Parent()
		}
		if !(strings.HasPrefix(root.Name(), "New") && root.Signature.Recv() == nil) {
			continue
		}
		allInstrs(fn, func(in ssa.Instruction) {
			st, ok := in.(*ssa.Store)
			if !ok {
				return
			}
			u, ok := st.Val.(*ssa.UnOp)
			if !ok || u.Op != token.MUL {
				return
			}
			var g *ssa.Global
			switch x := u.X.(type) {
			case *ssa.Global:
				g = x
			case *ssa.FieldAddr:
				g, _ = x.X.(*ssa.Global)
			}
			if g == nil || g.Pkg == nil || !isLibPkgPath(g.Pkg.Pkg.Path()) {
				return
			}
			if !hasRefField(st.Val.Type(), 0) {
				return
			}
			if _, isStruct := st.Val.Type().Underlying().(*types.Struct); !isStruct {
				if _, isMap := st.Val.Type().Underlying().(*types.Map); !isMap {
					return // pointers to shared immutable objects (compiled patterns, loggers) are fine
				}
			}
			bad++
			r.Bad(rule, fmt.Sprintf("%s copies shared state from %s#%d", shortFn(fn), g.Name(), bad), c.Pos(in.Pos()), "a constructor copies maps / lock pointers out of a package-level value into the object it builds: every object built this way shares them, so one session's stored replies (or its lock) are another session's")
		})
	}
	if bad == 0 {
		r.OK(rule, "constructors", "-", "no constructor copies reference-typed state from a package-level value")
	}
}

// ---- no panic through strings.Repeat with a computed count -------------------------------------------------------

func checkRepeatCountGuarded(c *Ctx, r *Report, rule string) {
	bad := 0
	for _, fn := range c.LibFns {
		for _, ci := range callInstrs(fn) {
			o := CalleeObj(ci)
			if o == nil || o.Pkg() == nil || (o.Pkg().Path() != "strings" && o.Pkg().Path() != "bytes") || o.Name() != "Repeat" || len(ci.Common().Args) != 2 {
				continue
			}
			cnt := ci.Common().Args[1]
			if k, ok := constInt(cnt); ok && k >= 0 {
				continue
			}
			bo, ok := cnt.(*ssa.BinOp)
			if !ok || bo.Op != token.SUB {
				continue
			}
			guarded := guardedBy(ci, func(cv ssa.Value, t bool) bool {
				cmp, ok := cv.(*ssa.BinOp)
				if !ok {
					return false
				}
				switch cmp.Op {
				case token.LSS, token.LEQ, token.GTR, token.GEQ:
					return true
				}
				return false
			})
			if !guarded {
				bad++
				r.Bad(rule, fmt.Sprintf("%s repeat count#%d", shortFn(fn), bad), c.Pos(ci.Pos()), "strings.Repeat is given a difference that no comparison on this path keeps non-negative: for an operand longer than assumed it panics ('negative Repeat count') in whichever goroutine formats the message -- the reader goroutine logs at critical level before it hands on a transport error")
			}
		}
	}
	if bad == 0 {
		r.OK(rule, "repeat counts", "-", "no unguarded computed Repeat count")
	}
}

// ---- C17: an advertised name is looked up among the embedded definitions as it was given ---------------------------

func checkAssetLookupUnresolved(c *Ctx, r *Report, rule string) {
	load := c.LookupFunc("platform", "", "loadPlatformDefinition")
	if load == nil || len(load.Params) != 1 {
		r.Anchor(rule, "platform.loadPlatformDefinition(f)")
		return
	}
	p := load.Params[0]
	n := 0
	for _, ci := range callInstrs(load) {
		call, ok := ci.(*ssa.Call)
		if !ok {
			continue
		}
		h := call.Call.StaticCallee()
		if h == nil || h.Pkg != load.Pkg {
			continue
		}
		// the helper that reads the embedded file system
		readsAssets := false
		for _, hc := range callInstrsDeep(h, 1) {
			if o := CalleeObj(hc); o != nil && o.Pkg() != nil && o.Pkg().Path() == "embed" {
				readsAssets = true
			}
		}
		if !readsAssets {
			continue
		}
		n++
		construct := "embedded lookup gets the name as given"
		okArg := false
		for _, a := range call.Call.Args {
			if a == ssa.Value(p) {
				okArg = true
			}
		}
		// nothing may stand between the function's entry and the lookup
		first := true
		for _, other := range callInstrs(load) {
			if other == ci {
				break
			}
			if oc, ok := other.(*ssa.Call); ok && oc.Call.StaticCallee() != nil && oc.Call.StaticCallee().Pkg != nil && isLibPkgPath(oc.Call.StaticCallee().Pkg.Pkg.Path()) {
				first = false
			}
		}
		if okArg && first {
			r.OK(rule, construct, c.Pos(call.Pos()), "the embedded definitions are consulted first, with the caller's string")
		} else {
			r.Bad(rule, construct, c.Pos(call.Pos()), "the name is resolved against something else (the file system, the home directory) before the embedded definitions are consulted, or the lookup is handed a rewritten name: an advertised platform name stops loading its embedded definition on a machine that happens to have a file or directory of that name")
		}
	}
	if n == 0 {
		r.Unk(rule, "embedded lookup", c.Pos(load.Pos()), "loadPlatformDefinition does not consult the embedded definitions through a helper of the package")
	}
}

// ---- ANSI pattern: specimen sequences of ECMA-48 / xterm are matched whole ----------------------------------------

// ansiSpecimens: complete control sequences every terminal-facing CLI may emit (ECMA-48 CSI with and without private
// parameter prefix, SGR, erase, cursor, mode set/reset; xterm OSC title terminated by BEL).
var ansiSpecimens = []string{
	"\x1b[0m", "\x1b[1;31m", "\x1b[K", "\x1b[2J", "\x1b[H", "\x1b[10;20H", "\x1b[?25l", "\x1b[?25h", "\x1b[?2004h", "\x1b[?7h", "\x1b[?1h", "\x1b=", "\x1b>",
	"\x1b]0;title\x07", "\x1b]2;a;b\x07",
}

func checkANSISpecimens(c *Ctx, r *Report, rule string) {
	co := c.LookupConst("util", "ansi")
	if co == nil {
		r.Anchor(rule, "util.ansi")
		return
	}
	pat := constant.StringVal(co.Val())
	re, err := regexp.Compile("^(?:" + pat + ")$")
	construct := "ANSI pattern accepts the specimen control sequences whole"
	if err != nil {
		r.Bad(rule, construct, c.Pos(co.Pos()), "the pattern does not compile: "+err.Error())
		return
	}
	var missed []string
	for _, s := range ansiSpecimens {
		if !re.MatchString(s) {
			missed = append(missed, fmt.Sprintf("%q", s))
		}
	}
	if len(missed) == 0 {
		r.OK(rule, construct, c.Pos(co.Pos()), fmt.Sprintf("%d specimens (CSI with and without private prefix, SGR, erase, cursor, keypad, OSC title)", len(ansiSpecimens)))
	} else {
		r.Bad(rule, construct, c.Pos(co.Pos()), "the escape-sequence pattern no longer matches "+strings.Join(missed, ", ")+" as one complete sequence: devices that emit it (bracketed paste, cursor visibility, application keypad around the prompt) get it left in the output and in front of the prompt, which then never matches")
	}
}

// ---- C20: no lock is taken again by a function called while it is held -------------------------------------------

// acquiresOnReceiver: the lock keys fn (or a same-receiver method it calls, two levels) acquires on its own receiver.
func acquiresOnReceiver(fn *ssa.Function, depth int, seen map[*ssa.Function]bool) map[string]token.Pos {
	out := map[string]token.Pos{}
	if fn == nil || len(fn.Params) == 0 || fn.Signature.Recv() == nil || seen[fn] || depth > 2 {
		return out
	}
	seen[fn] = true
	recv := fn.Params[0]
	onRecv := func(v ssa.Value) bool {
		if fa, ok := v.(*ssa.FieldAddr); ok {
			return fa.X == ssa.Value(recv)
		}
		if u, ok := v.(*ssa.UnOp); ok && u.Op == token.MUL {
			if fa, ok := u.X.(*ssa.FieldAddr); ok {
				return fa.X == ssa.Value(recv)
			}
		}
		return false
	}
	for _, ci := range callInstrs(fn) {
		if _, isGo := ci.(*ssa.Go); isGo {
			continue
		}
		if key, op, ok := lockOp(ci); ok {
			if (op == "Lock" || op == "RLock") && key != "?" && onRecv(ci.Common().Args[0]) {
				if _, isDefer := ci.(*ssa.Defer); !isDefer {
					out[key] = ci.Pos()
				}
			}
			continue
		}
		h := ci.Common().StaticCallee()
		if h != nil && h.Pkg == fn.Pkg && h.Signature.Recv() != nil && len(ci.Common().Args) > 0 && ci.Common().Args[0] == ssa.Value(recv) {
			if _, isDefer := ci.(*ssa.Defer); isDefer {
				continue
			}
			for k, p := range acquiresOnReceiver(h, depth+1, seen) {
				out[k] = p
			}
		}
	}
	return out
}

func checkNoReentrantLock(c *Ctx, r *Report, rule string, pkgs []string) {
	all := map[*ssa.Function]bool{}
	for _, fn := range c.LibFns {
		all[fn] = true
	}
	ml := NewMustLocks(c, all, func(ssa.CallInstruction, *ssa.Function) bool { return false })
	n, bad := 0, 0
	for _, fn := range c.LibFns {
		if fn.Pkg == nil || fn.Signature.Recv() == nil || len(fn.Params) == 0 {
			continue
		}
		if len(pkgs) > 0 {
			in := false
			for _, q := range pkgs {
				if strings.HasSuffix(fn.Pkg.Pkg.Path(), "/"+q) {
					in = true
				}
			}
			if !in {
				continue
			}
		}
		recv := fn.Params[0]
		for _, ci := range callInstrs(fn) {
			if _, isCall := ci.(*ssa.Call); !isCall {
				continue
			}
			if _, _, isLock := lockOp(ci); isLock {
				continue
			}
			h := ci.Common().StaticCallee()
			if h == nil || h.Pkg != fn.Pkg || h.Signature.Recv() == nil || len(ci.Common().Args) == 0 || ci.Common().Args[0] != ssa.Value(recv) {
				continue
			}
			held := ml.HeldAt(ci)
			if len(held) == 0 {
				continue
			}
			n++
			acq := acquiresOnReceiver(h, 0, map[*ssa.Function]bool{})
			for hk := range held {
				key := strings.TrimSuffix(strings.TrimSuffix(hk, "/W"), "/R")
				if p, ok := acq[key]; ok {
					bad++
					r.Bad(rule, fmt.Sprintf("%s calls %s holding %s", shortFn(fn), shortFn(h), key), c.Pos(ci.Pos()), fmt.Sprintf("%s is held here (%s) and the callee takes it again at %s: a mutex is not re-entrant, and a read lock taken twice deadlocks as soon as a writer queues up between the two acquisitions -- the reader goroutine and the caller both go through these methods, so the session hangs under exactly the concurrency the lock is there for", key, hk[len(hk)-1:], c.Pos(p)))
				}
			}
		}
	}
	if bad == 0 {
		r.OK(rule, "calls made while a lock is held", "-", fmt.Sprintf("%d same-receiver call(s) under a held lock examined, none re-acquires it", n))
	}
}

// ---- C08: the key the reader files a message under is the id found in that message, whatever else it contains -----

// keyDecidedByOwnMatchOnly: key is the getID call, or a phi of it with constants whose choice is decided only by
// conditions over the same match.
func keyDecidedByOwnMatchOnly(key ssa.Value, isOwnMatch func(ssa.Value) bool) (bool, token.Pos) {
	phi, ok := key.(*ssa.Phi)
	if !ok {
		return true, token.NoPos
	}
	hasConst := false
	for _, e := range phi.Edges {
		if _, isC := e.(*ssa.Const); isC {
			hasConst = true
		}
	}
	if !hasConst {
		return true, token.NoPos
	}
	top := phi.Block().Idom()
	if top == nil {
		return false, phi.Pos()
	}
	region := map[*ssa.BasicBlock]bool{}
	var walk func(b *ssa.BasicBlock)
	walk = func(b *ssa.BasicBlock) {
		if b == phi.Block() || region[b] {
			return
		}
		region[b] = true
		for _, s := range b.Succs {
			walk(s)
		}
	}
	walk(top)
	var derives func(v ssa.Value, d int) bool
	derives = func(v ssa.Value, d int) bool {
		if d > 8 {
			return false
		}
		if isOwnMatch(v) {
			return true
		}
		switch x := v.(type) {
		case *ssa.Const:
			return true
		case *ssa.BinOp:
			return derives(x.X, d+1) && derives(x.Y, d+1)
		case *ssa.UnOp:
			return derives(x.X, d+1)
		case *ssa.Call:
			if b, ok := x.Call.Value.(*ssa.Builtin); ok && b.Name() == "len" {
				return derives(x.Call.Args[0], d+1)
			}
			// the id extracted from the own match
			if len(x.Call.Args) == 1 && x.Call.StaticCallee() != nil {
				return derives(x.Call.Args[0], d+1)
			}
		case *ssa.Phi:
			if x == phi {
				return true
			}
		}
		return false
	}
	for b := range region {
		if len(b.Instrs) == 0 {
			continue
		}
		if iff, ok := b.Instrs[len(b.Instrs)-1].(*ssa.If); ok {
			if !derives(iff.Cond, 0) {
				pos := iff.Cond.Pos()
				if pos == token.NoPos {
					for _, in := range b.Instrs {
						if in.Pos() != token.NoPos {
							pos = in.Pos()
						}
					}
				}
				return false, pos
			}
		}
	}
	return true, token.NoPos
}

// ---- constructor-only helpers -------------------------------------------------------------------------------------

// one table per loaded program: the thorough tier loads the tree again under other build configurations
var ctorOnlyCaches = map[*Ctx]map[*ssa.Function]bool{}

// isConstructorCode: fn is a constructor (a New* function, or a closure inside one), or an unexported helper that is
// only ever called -- statically, never taken as a value -- from constructor code (three levels).
func isConstructorCode(c *Ctx, fn *ssa.Function) bool {
	ctorOnlyCache := ctorOnlyCaches[c]
	if ctorOnlyCache == nil {
		callers := map[*ssa.Function][]*ssa.Function{}
		asValue := map[*ssa.Function]bool{}
		for _, f := range c.LibFns {
			root := f
			for root.Parent() != nil {
				root = root.Parent()
			}
			allInstrs(f, func(in ssa.Instruction) {
				var callee *ssa.Function
				if ci, ok := in.(ssa.CallInstruction); ok {
					callee = ci.Common().StaticCallee()
					if callee != nil {
						callers[callee] = append(callers[callee], root)
					}
				}
				for _, op := range in.Operands(nil) {
					if op == nil || *op == nil {
						continue
					}
					if g, ok := (*op).(*ssa.Function); ok && g != callee {
						asValue[g] = true
					}
				}
			})
		}
		ctorOnlyCache = map[*ssa.Function]bool{}
		isNew := func(f *ssa.Function) bool {
			return strings.HasPrefix(f.Name(), "New") && f.Signature.Recv() == nil
		}
		for _, f := range c.LibFns {
			if f.Parent() == nil && isNew(f) {
				ctorOnlyCache[f] = true
			}
		}
		for round := 0; round < 3; round++ {
			for _, f := range c.LibFns {
				if f.Parent() != nil || ctorOnlyCache[f] || asValue[f] || len(callers[f]) == 0 {
					continue
				}
				if o := f.Object(); o == nil || o.Exported() {
					continue
				}
				all := true
				for _, cl := range callers[f] {
					if !ctorOnlyCache[cl] {
						all = false
					}
				}
				if all {
					ctorOnlyCache[f] = true
				}
			}
		}
		ctorOnlyCaches[c] = ctorOnlyCache
	}
	root := fn
	for root.Parent() != nil {
		root = root.Parent()
	}
	return ctorOnlyCache[root]
}

// ---- lock order ----------------------------------------------------------------------------------------------------

// mayAcquire: the lock keys fn or its library callees (three levels, goroutine launches excluded) acquire.
func mayAcquire(c *Ctx, fn *ssa.Function, depth int, seen map[*ssa.Function]bool, out map[string]token.Pos) {
	if fn == nil || fn.Blocks == nil || seen[fn] || depth > 3 {
		return
	}
	seen[fn] = true
	for _, ci := range callInstrs(fn) {
		if _, isGo := ci.(*ssa.Go); isGo {
			continue
		}
		if key, op, ok := lockOp(ci); ok {
			if _, isDefer := ci.(*ssa.Defer); !isDefer && (op == "Lock" || op == "RLock") && key != "?" {
				if _, dup := out[key]; !dup {
					out[key] = ci.Pos()
				}
			}
			continue
		}
		for _, h := range c.Callees(ci) {
			if h.Pkg != nil && isLibPkgPath(h.Pkg.Pkg.Path()) {
				mayAcquire(c, h, depth+1, seen, out)
			}
		}
	}
}

// checkLockOrder: wherever a library mutex K is acquired (directly or in a callee) while another library mutex L is
// certainly held, L is ordered before K; the order must be acyclic.
func checkLockOrder(c *Ctx, r *Report, rule string) {
	all := map[*ssa.Function]bool{}
	for _, fn := range c.LibFns {
		all[fn] = true
	}
	ml := NewMustLocks(c, all, func(ssa.CallInstruction, *ssa.Function) bool { return false })
	type edge struct{ from, to string }
	where := map[edge]string{}
	locks := map[string]bool{}
	for _, fn := range c.LibFns {
		for _, ci := range callInstrs(fn) {
			if _, isGo := ci.(*ssa.Go); isGo {
				continue
			}
			if _, isDefer := ci.(*ssa.Defer); isDefer {
				continue
			}
			acq := map[string]token.Pos{}
			if key, op, ok := lockOp(ci); ok {
				if (op == "Lock" || op == "RLock") && key != "?" {
					acq[key] = ci.Pos()
					locks[key] = true
				}
			} else {
				for _, h := range c.Callees(ci) {
					if h.Pkg != nil && isLibPkgPath(h.Pkg.Pkg.Path()) {
						mayAcquire(c, h, 1, map[*ssa.Function]bool{}, acq)
					}
				}
			}
			if len(acq) == 0 {
				continue
			}
			held := ml.HeldAt(ci)
			for hk := range held {
				l := strings.TrimSuffix(strings.TrimSuffix(hk, "/W"), "/R")
				for k, p := range acq {
					if k == l {
						continue // same-key nesting is the business of no-reentrant-lock (needs the receiver's identity)
					}
					e := edge{l, k}
					if _, dup := where[e]; !dup {
						where[e] = fmt.Sprintf("%s holds %s at %s and %s is taken at %s", shortFn(fn), l, c.Pos(ci.Pos()), k, c.Pos(p))
					}
				}
			}
		}
	}
	// cycles (the graph has a handful of nodes)
	adj := map[string][]string{}
	for e := range where {
		adj[e.from] = append(adj[e.from], e.to)
	}
	bad := 0
	var reaches func(from, to string, seen map[string]bool) bool
	reaches = func(from, to string, seen map[string]bool) bool {
		if from == to {
			return true
		}
		if seen[from] {
			return false
		}
		seen[from] = true
		for _, n := range adj[from] {
			if reaches(n, to, seen) {
				return true
			}
		}
		return false
	}
	var es []edge
	for e := range where {
		es = append(es, e)
	}
	sort.Slice(es, func(i, j int) bool { return es[i].from+es[i].to < es[j].from+es[j].to })
	for _, e := range es {
		if reaches(e.to, e.from, map[string]bool{}) {
			bad++
			r.Bad(rule, fmt.Sprintf("order %s before %s", e.from, e.to), "-", fmt.Sprintf("%s, but elsewhere the two are taken in the opposite order (a path of acquisitions leads from %s back to %s): two goroutines -- the reader and the caller, or two callers -- that meet in the middle wait for each other for ever, and Close behind them", where[e], e.to, e.from))
		}
	}
	if bad == 0 {
		r.OK(rule, "acquisition order of the library's mutexes", "-", fmt.Sprintf("%d mutex field(s), %d nested acquisition(s) found; the order is acyclic", len(locks), len(es)))
	}
}

// ---- no unchecked type assertion ------------------------------------------------------------------------------------

// checkNoUncheckedAssert: every type assertion of the library is of the comma-ok form (or part of a type switch):
// an interface value whose dynamic type is not the expected one yields an error, not a panic. Values that reach these
// assertions come from the caller (options, platform definitions decoded from YAML) and are not under the library's
// control.
func checkNoUncheckedAssert(c *Ctx, r *Report, rule string) {
	n, bad := 0, 0
	for _, fn := range c.LibFns {
		if fn.Pkg == nil || strings.HasPrefix(c.Pos(fn.Pos()), "util/testclean.go") || fn.Synthetic != "" {
			continue
		}
		allInstrs(fn, func(in ssa.Instruction) {
			ta, ok := in.(*ssa.TypeAssert)
			if !ok {
				return
			}
			n++
			if ta.CommaOk {
				return
			}
			bad++
			r.Bad(rule, fmt.Sprintf("%s assertion#%d to %s", shortFn(fn), bad, types.TypeString(ta.AssertedType, func(p *types.Package) string { return p.Name() })), c.Pos(ta.Pos()), "a single-value type assertion: when the interface value holds anything else (a YAML scalar of another kind, an option applied to another object, a transport of another type) the library panics instead of returning an error")
		})
	}
	if bad == 0 {
		r.OK(rule, "type assertions of the library", "-", fmt.Sprintf("%d assertion(s), all comma-ok or in a type switch", n))
	}
}
