package main

// C10 — in-channel login succeeds iff the device admits us; attempts are bounded.

import (
	"fmt"
	"go/constant"
	"go/token"
	"go/types"
	"strings"

	"golang.org/x/tools/go/ssa"
)

func init() {
	register(&Property{
		ID:  "C10",
		Run: runC10,
		Explanation: "Pairing, bounding and cleanup rules over the two in-channel login loops, for every dialogue at once: credential-prompt — each credential written during login (user name, password, key passphrase; identified by provenance from the transport's auth data through Channel.Open and the Authenticate* wrappers) is written only on the true edge of a match of its own prompt pattern (user name <-> username pattern, password <-> password pattern, passphrase <-> passphrase pattern), with the redaction flag set; " +
			"at-most-twice — each such write is dominated by the false edge of `count > 2` where count is a loop counter starting at 0 and incremented once on the matched-prompt edge, and the true edge returns an error wrapping ErrAuthError (so each credential is written on the first and second prompt, never on a third); success-first — a shell prompt match returns success with the bytes read, and is tested before any credential prompt; " +
			"classes — every non-nil result of the ssh message handler wraps ErrConnectionError (timeouts: C05); cleanup-requeue — Channel.Open closes the channel on every error after the transport opened (deferred close on the named result, installed before the reader starts) and requeues the bytes the login consumed when there are any. " +
			"NOT decided: 'succeeds exactly when the device reaches a shell prompt' as a statement over dialogues, segmentations and banner texts (regular-expression matching on run-time data).",
		Assumptions: []string{"regexp matching is opaque; prompt patterns are the configured ones"},
		Mutants: []Mutant{
			{ID: "C10-password-prompt-unanchored", Desc: "the built-in password prompt pattern no longer has to end the line", Rule: "C10/password-prompt-anchored",
				Edits: []Edit{{File: "channel/auth.go", Old: "(?im)(.*@.*)?password:\\s?$", New: "(?im)(.*@.*)?password:\\s*"}}},
			{ID: "C10-passphrase-buffer-kept", Desc: "the ssh login loop keeps its buffer after typing the passphrase", Rule: "C10/auth-reset",
				Edits: []Edit{{File: "channel/auth.go", Old: "\t\t\tb = []byte{}\n\t\t}\n\t}\n}\n\n// AuthenticateSSH", New: "\t\t\tnb = []byte{}\n\t\t}\n\t}\n}\n\n// AuthenticateSSH"}}},
			{ID: "C10-login-deadline-on-worker-context", Desc: "the ssh login worker gets a context with the deadline itself", Rule: "C10/worker-nil-result",
				Edits: []Edit{{File: "channel/auth.go", Old: "\tctx, cancel := context.WithCancel(context.Background())\n\n\tdefer cancel()\n\n\tgo func() {\n\t\tdefer close(cr)\n\n\t\tcr <- c.authenticateSSH(ctx, p, pp)", New: "\tctx, cancel := context.WithTimeout(context.Background(), c.TimeoutOps)\n\n\tdefer cancel()\n\n\tgo func() {\n\t\tdefer close(cr)\n\n\t\tcr <- c.authenticateSSH(ctx, p, pp)"}}},
			{ID: "C10-empty-credential-not-sent", Desc: "WriteAndReturn returns early for an empty credential", Rule: "C10/found-send-input",
				Edits: []Edit{{File: "channel/write.go", Old: "func (c *Channel) WriteAndReturn(b []byte, r bool) error {\n", New: "func (c *Channel) WriteAndReturn(b []byte, r bool) error {\n\tif len(b) == 0 {\n\t\treturn nil\n\t}\n\n"}}},
			{ID: "C10-scan-fresh-only", Desc: "ssh client messages looked for in the latest read only", Rule: "C10/scan-accumulated",
				Edits: []Edit{{File: "channel/auth.go", Old: "err = c.sshMessageHandler(b)", New: "err = c.sshMessageHandler(nb)"}}},
			{ID: "C10-passphrase-defaults-to-password", Desc: "in-channel auth data: an empty key passphrase falls back to the account password", Rule: "C10/auth-data-wiring",
				Edits: []Edit{{File: "transport/transport.go", Old: "\td.PrivateKeyPassPhrase = sshTransport.GetSSHArgs().PrivateKeyPassPhrase\n", New: "\td.PrivateKeyPassPhrase = sshTransport.GetSSHArgs().PrivateKeyPassPhrase\n\tif d.PrivateKeyPassPhrase == \"\" {\n\t\td.PrivateKeyPassPhrase = d.Password\n\t}\n"}}},
			{ID: "C10-ansi-runs-to-bel", Desc: "OSC branch of the ANSI pattern accepts anything up to the next BEL", Rule: "C10/ansi-bounded",
				Edits: []Edit{{File: "util/bytes.go", Old: "(?:;[a-zA-Z\\\\d]*)*)?\" +", New: "(?:;[^\\u0007]*)*)?\" +"}}},
			{ID: "C10-retry-bound-3", Desc: "password retry bound 3", Rule: "C10/at-most-twice",
				Edits: []Edit{{File: "channel/auth.go", Old: "\tpasswordSeenMax   = 2", New: "\tpasswordSeenMax   = 3"}}},
			{ID: "C10-telnet-bytes-shadowed", Desc: "the telnet login's bytes land in a variable of their own (b, err := ...) and are never requeued", Rule: "C10/cleanup-requeue",
				Edits: []Edit{{File: "channel/channel.go", Old: "\t\tb, err = c.AuthenticateTelnet([]byte(authData.User), []byte(authData.Password))\n\t\tif err != nil {\n\t\t\treturn err\n\t\t}\n", New: "\t\tb, err := c.AuthenticateTelnet([]byte(authData.User), []byte(authData.Password))\n\t\tif err != nil {\n\t\t\treturn err\n\t\t}\n\n\t\tc.l.Debugf(\"login consumed %d bytes\", len(b))\n"}}},
			{ID: "C10-password-prompt-wins", Desc: "telnet login skips the user-name answer when the password pattern matches the same text", Rule: "C10/one-answer-per-pass",
				Edits: []Edit{{File: "channel/auth.go", Old: "\t\tif c.UsernamePattern.Match(b) {\n\t\t\tb = []byte{}\n\n\t\t\tuCount++", New: "\t\tif c.UsernamePattern.Match(b) && !c.PasswordPattern.Match(b) {\n\t\t\tb = []byte{}\n\n\t\t\tuCount++"}}},
			{ID: "C10-username-gets-password", Desc: "telnet answers the user-name prompt with the password", Rule: "C10/credential-prompt",
				Edits: []Edit{{File: "channel/auth.go", Old: "\t\t\terr = c.WriteAndReturn(u, true)", New: "\t\t\terr = c.WriteAndReturn(p, true)"}}},
			{ID: "C10-passphrase-on-password-prompt", Desc: "ssh answers the password prompt with the passphrase when no password is set", Rule: "C10/credential-prompt",
				Edits: []Edit{{File: "channel/auth.go", Old: "\t\t\terr = c.WriteAndReturn(p, true)\n\t\t\tif err != nil {\n\t\t\t\treturn &result{nil, err}\n\t\t\t}\n\n\t\t\t// reset", New: "\t\t\tif len(p) == 0 {\n\t\t\t\tp = pp\n\t\t\t}\n\n\t\t\terr = c.WriteAndReturn(p, true)\n\t\t\tif err != nil {\n\t\t\t\treturn &result{nil, err}\n\t\t\t}\n\n\t\t\t// reset"}}},
			{ID: "C10-count-after-write", Desc: "passphrase counter checked only after writing", Rule: "C10/at-most-twice",
				Edits: []Edit{{File: "channel/auth.go", Old: "\t\tif c.PassphrasePattern.Match(b) {\n\t\t\tppCount++\n\n\t\t\tif ppCount > passphraseSeenMax {", New: "\t\tif c.PassphrasePattern.Match(b) {\n\t\t\tif ppCount > passphraseSeenMax {"}}},
			{ID: "C10-auth-error-class", Desc: "third prompt reported as a connection error", Rule: "C10/at-most-twice",
				Edits: []Edit{{File: "channel/auth.go", Old: "\t\t\t\t\t\t\"%w: username prompt seen multiple times, assuming authentication failed\",\n\t\t\t\t\t\tutil.ErrAuthError,", New: "\t\t\t\t\t\t\"%w: username prompt seen multiple times, assuming authentication failed\",\n\t\t\t\t\t\tutil.ErrConnectionError,"}}},
			{ID: "C10-open-no-close", Desc: "failed login leaves the transport open", Rule: "C10/cleanup-requeue",
				Edits: []Edit{{File: "channel/channel.go", Old: "\t\tif reterr != nil {\n\t\t\t// don't leave the transport open if we are going to return an error -- especially", New: "\t\tif reterr != nil && c.AuthBypass {\n\t\t\t// don't leave the transport open if we are going to return an error -- especially"}}},
			{ID: "C10-no-requeue", Desc: "bytes read during login are dropped", Rule: "C10/cleanup-requeue",
				Edits: []Edit{{File: "channel/channel.go", Old: "\tif len(b) > 0 {\n\t\t// requeue any buffer data", New: "\tif len(b) > 1024 {\n\t\t// requeue any buffer data"}}},
			{ID: "C10-handler-class", Desc: "ssh failure messages reported as authentication errors", Rule: "C10/classes",
				Edits: []Edit{{File: "channel/auth.go", Old: "\t\t\t\"%w: encountered error output during in channel ssh authentication, error: '%s'\",\n\t\t\tutil.ErrConnectionError,", New: "\t\t\t\"%w: encountered error output during in channel ssh authentication, error: '%s'\",\n\t\t\tutil.ErrAuthError,"}}},
			{ID: "C10-prompt-after-password", Desc: "password prompt tested before the shell prompt", Rule: "C10/success-first",
				Edits: []Edit{{File: "channel/auth.go", Old: "\t\tif c.PromptPattern.Match(b) {\n\t\t\treturn &result{b, nil}\n\t\t}\n\n\t\tif c.PasswordPattern.Match(b) {\n\t\t\tpCount++", New: "\t\tif !c.PasswordPattern.Match(b) && c.PromptPattern.Match(b) {\n\t\t\treturn &result{b, nil}\n\t\t}\n\n\t\tif c.PasswordPattern.Match(b) {\n\t\t\tpCount++"}}},
			{ID: "C10-swap-open-args", Desc: "Open passes passphrase and password in the wrong order", Rule: "C10/credential-prompt",
				Edits: []Edit{{File: "channel/channel.go", Old: "\t\t\t[]byte(authData.Password),\n\t\t\t[]byte(authData.PrivateKeyPassPhrase),", New: "\t\t\t[]byte(authData.PrivateKeyPassPhrase),\n\t\t\t[]byte(authData.Password),"}}},
		},
	})
}

// credentialOfParam traces an authenticateX parameter back to the auth-data field it carries.
func credentialOfParam(c *Ctx, fn *ssa.Function, idx int, depth int) string {
	if depth > 4 {
		return ""
	}
	found := ""
	n := 0
	for _, caller := range c.LibFns {
		for _, ci := range callInstrs(caller) {
			if ci.Common().StaticCallee() != fn {
				continue
			}
			args := ci.Common().Args
			if idx >= len(args) {
				continue
			}
			n++
			v := stripConv(args[idx])
			// auth-data field
			if f, _, ok := fieldLoad(v); ok {
				found = f.Name()
				continue
			}
			// captured parameter of the enclosing wrapper
			var p *ssa.Parameter
			switch x := v.(type) {
			case *ssa.Parameter:
				p = x
			case *ssa.FreeVar:
				if b, ok := freeVarBinding(x).(*ssa.Parameter); ok {
					p = b
				}
			case *ssa.UnOp:
				if fv, ok := x.X.(*ssa.FreeVar); ok {
					if a, ok := freeVarBinding(fv).(*ssa.Alloc); ok {
						for _, ref := range *a.Referrers() {
							if st, ok := ref.(*ssa.Store); ok && st.Addr == ssa.Value(a) {
								if pp, ok := st.Val.(*ssa.Parameter); ok {
									p = pp
								}
							}
						}
					}
				}
			}
			if p != nil {
				owner := p.Parent()
				for i, q := range owner.Params {
					if q == p {
						found = credentialOfParam(c, owner, i, depth+1)
					}
				}
			}
		}
	}
	if n != 1 {
		return ""
	}
	return found
}

func runC10(c *Ctx, r *Report) {
	importFoundation(c, r, "C10", "platform-options")
	r.Rule("C10/password-prompt-anchored", "the built-in pattern that decides when the login password is typed matches only where the prompt ends a line", 1)
	checkPasswordPromptAnchored(c, r, "C10/password-prompt-anchored")
	r.Rule("C10/patterns-compile", "every constant pattern the library compiles lazily is a valid expression (classifying an ssh client error line cannot panic)", 1)
	checkPatternsCompile(c, r, "C10/patterns-compile", nil)
	importFoundation(c, r, "C10", "transport-pipe")
	importFoundation(c, r, "C10", "read-loop")
	importFoundation(c, r, "C10", "telnet-negotiation")
	importFoundation(c, r, "C10", "driver-options")
	importFoundation(c, r, "C10", "queue")
	importFoundation(c, r, "C10", "send-input")
	r.Rule("C10/ansi-bounded", "what the read loop strips cannot span the login prompt: no unbounded repetition of the escape-sequence pattern admits ESC or newline", 1)
	checkANSIPatternBounded(c, r, "C10/ansi-bounded")
	r.Rule("C10/auth-data-wiring", "InChannelAuthData fills user, password and passphrase each from its own setting", 1)
	checkAuthDataWiring(c, r, "C10/auth-data-wiring")
	r.Rule("C10/no-double-close", "a driver Open does not close the channel again on the failing edge of Channel.Open (which closed it already; Close is not idempotent)", 2)
	checkNoDoubleChannelClose(c, r, "C10/no-double-close")
	r.Rule("C10/error-classes", "each failure site named by the property wraps the sentinel the property names (timeout / auth / connection / privilege / NETCONF / operation / platform error)", 5)
	checkErrorClasses(c, r, "C10")
	r.Rule("C10/credential-prompt", "each credential is written only on the true edge of a match of its own prompt pattern, redacted", 4)
	r.Rule("C10/at-most-twice", "each credential write is dominated by the false edge of count > 2 for a counter incremented once per matched prompt; the true edge returns ErrAuthError", 4)
	r.Rule("C10/success-first", "a shell prompt match returns success with the bytes read and is tested before any credential prompt", 2)
	r.Rule("C10/classes", "every non-nil result of the ssh message handler wraps ErrConnectionError", 1)
	r.Rule("C10/cleanup-requeue", "Open closes the channel on every error after the transport opened, that close reaches Transport.Close on every path, and Open requeues the bytes the login consumed", 3)

	r.Rule("C10/scan-accumulated", "prompt patterns and the ssh client message scan are applied to everything read since the last answer, never to the latest read alone", 7)
	checkAuthScanAccumulated(c, r)
	r.Rule("C10/auth-reset", "after each credential the login loop starts from an empty buffer (the answered prompt cannot match again on the next chunk)", 4)
	checkAuthBufferReset(c, r, "C10/auth-reset")
	r.Rule("C10/worker-nil-result", "a login worker that can answer nil (when told to stop) is only told to stop by the deferred cancel of the function that reads its answer", 2)
	checkWorkerNilResult(c, r, "C10/worker-nil-result")
	r.Rule("C10/one-answer-per-pass", "on the true edge of a credential prompt's match the login loop types nothing but that prompt's own credential before it reads the next chunk", 4)
	checkOneAnswerPerPass(c, r, "C10/one-answer-per-pass")
	war := c.LookupFunc("channel", "Channel", "WriteAndReturn")
	if war == nil {
		r.Anchor("C10/credential-prompt", "(*channel.Channel).WriteAndReturn")
		return
	}
	pairing := map[string]string{"User": "UsernamePattern", "Password": "PasswordPattern", "PrivateKeyPassPhrase": "PassphrasePattern"}
	for _, name := range []string{"authenticateSSH", "authenticateTelnet"} {
		fn := c.LookupFunc("channel", "Channel", name)
		if fn == nil {
			r.Anchor("C10/credential-prompt", "(*channel.Channel)."+name)
			continue
		}
		writes := staticCallsTo(fn, war)
		if len(writes) == 0 {
			r.Bad("C10/credential-prompt", shortFn(fn), c.Pos(fn.Pos()), "the login loop never answers a prompt")
		}
		promptF := c.LookupField("channel", "Channel", "PromptPattern")
		for i, w := range writes {
			call := w.(*ssa.Call)
			data := call.Call.Args[1]
			construct := fmt.Sprintf("%s write#%d", shortFn(fn), i+1)
			p, ok := data.(*ssa.Parameter)
			if !ok {
				r.Bad("C10/credential-prompt", construct, c.Pos(call.Pos()), "the data written during login is not one of the credentials handed to the login routine unchanged")
				continue
			}
			pidx := -1
			for k, q := range fn.Params {
				if q == p {
					pidx = k
				}
			}
			cred := credentialOfParam(c, fn, pidx, 0)
			want, known := pairing[cred]
			if !known {
				r.Unk("C10/credential-prompt", construct, c.Pos(call.Pos()), fmt.Sprintf("cannot trace parameter %s back to a field of the transport's auth data (got %q)", p.Name(), cred))
				continue
			}
			construct = fmt.Sprintf("%s writes %s", shortFn(fn), cred)
			var matched []string
			okPair := guardedBy(call, func(v ssa.Value, t bool) bool {
				m, isCall := v.(*ssa.Call)
				if !isCall || !t {
					return false
				}
				o := CalleeObj(m)
				if o == nil || o.Name() != "Match" {
					return false
				}
				f, _, isLoad := fieldLoad(m.Call.Args[0])
				if !isLoad {
					return false
				}
				matched = append(matched, f.Name())
				return f.Name() == want
			})
			red := isConstTrue(call.Call.Args[2])
			if okPair && red {
				r.OK("C10/credential-prompt", construct, c.Pos(call.Pos()), "only after "+want+" matched; redacted")
			} else {
				r.Bad("C10/credential-prompt", construct, c.Pos(call.Pos()), fmt.Sprintf("the %s is transmitted on an edge that is not 'its own prompt pattern (%s) matched' (matched on this edge: %v; redacted: %v): a credential is typed at the wrong prompt", cred, want, matched, red))
			}
			// at-most-twice
			var counterIf *ssa.BasicBlock
			bound := int64(-1)
			okBound := guardedBy(call, func(v ssa.Value, t bool) bool {
				bo, isBo := v.(*ssa.BinOp)
				if !isBo || t {
					return false
				}
				k, isC := constInt(bo.Y)
				if !isC {
					return false
				}
				inc, isInc := bo.X.(*ssa.BinOp)
				if !isInc || inc.Op != token.ADD {
					return false
				}
				one, isOne := constInt(inc.Y)
				phi, isPhi := inc.X.(*ssa.Phi)
				if !isOne || one != 1 || !isPhi {
					return false
				}
				// phi: 0 on entry, then only itself or the incremented value
				for _, e := range phi.Edges {
					if z, isZ := constInt(e); isZ && z == 0 {
						continue
					}
					if e == ssa.Value(phi) || e == ssa.Value(inc) {
						continue
					}
					return false
				}
				// the increment happens on the matched-prompt edge (dominated by the same Match)
				switch bo.Op {
				case token.GTR:
					bound = k
				case token.GEQ:
					bound = k - 1
				default:
					return false
				}
				for _, b := range fn.Blocks {
					if ifCond(b) == ssa.Value(bo) {
						counterIf = b
					}
				}
				return true
			})
			switch {
			case !okBound:
				r.Bad("C10/at-most-twice", construct, c.Pos(call.Pos()), "the write is not dominated by the false edge of `count > K` for a per-prompt loop counter starting at 0: the number of attempts is not bounded before writing")
			case bound != 2:
				r.Bad("C10/at-most-twice", construct, c.Pos(call.Pos()), fmt.Sprintf("the credential is offered up to %d times (prompt count bound %d), the property allows at most twice per open", bound, bound))
			case counterIf == nil || !authErrorOnBlock(counterIf.Succs[0]):
				r.Bad("C10/at-most-twice", construct, c.Pos(call.Pos()), "the third prompt does not end the login with an error wrapping ErrAuthError")
			default:
				r.OK("C10/at-most-twice", construct, c.Pos(call.Pos()), "count starts at 0, +1 per matched prompt, write only while count <= 2, third prompt -> ErrAuthError")
			}
		}
		// success-first
		var promptMatch *ssa.Call
		for _, ci := range callInstrs(fn) {
			call, ok := ci.(*ssa.Call)
			if !ok {
				continue
			}
			if o := CalleeObj(call); o != nil && o.Name() == "Match" {
				if f, _, isLoad := fieldLoad(call.Call.Args[0]); isLoad && f == promptF {
					promptMatch = call
				}
			}
		}
		if promptMatch == nil {
			r.Bad("C10/success-first", shortFn(fn), c.Pos(fn.Pos()), "the login loop never tests for the shell prompt")
		} else {
			okFirst := true
			for _, w := range writes {
				if !dominatesInstr(promptMatch, w) {
					okFirst = false
				}
			}
			// other Match calls must come after the prompt match
			for _, ci := range callInstrs(fn) {
				call, ok := ci.(*ssa.Call)
				if !ok || call == promptMatch {
					continue
				}
				if o := CalleeObj(call); o != nil && o.Name() == "Match" && o.Pkg() != nil && o.Pkg().Path() == "regexp" {
					if !dominatesInstr(promptMatch, call) {
						okFirst = false
					}
				}
			}
			// true edge returns &result{b, nil}
			okRet := false
			for _, ref := range *promptMatch.Referrers() {
				ifi, ok := ref.(*ssa.If)
				if !ok {
					continue
				}
				tb := ifi.Block().Succs[0]
				if n := len(tb.Instrs); n > 0 {
					if ret, ok := tb.Instrs[n-1].(*ssa.Return); ok && len(ret.Results) == 1 {
						if a, ok := ret.Results[0].(*ssa.Alloc); ok {
							errNil, hasB := false, false
							for _, aref := range *a.Referrers() {
								if fa, ok := aref.(*ssa.FieldAddr); ok {
									for _, r2 := range *fa.Referrers() {
										if st, ok := r2.(*ssa.Store); ok {
											if isErrorType(fieldOfAddr(fa).Type()) {
												errNil = isNilConst(st.Val)
											} else if st.Val == promptMatch.Call.Args[1] {
												hasB = true
											}
										}
									}
								}
							}
							okRet = errNil && hasB
						}
					}
				}
			}
			r.Check(okFirst && okRet, "C10/success-first", shortFn(fn), c.Pos(promptMatch.Pos()), "shell prompt tested first; returns the bytes read with no error",
				fmt.Sprintf("the shell prompt is not tested before the credential prompts (%v) or its match does not return success with the bytes read (%v)", okFirst, okRet))
		}
	}
	// constants
	for _, n := range []string{"usernameSeenMax", "passwordSeenMax", "passphraseSeenMax"} {
		co := c.LookupConst("channel", n)
		if co == nil {
			continue
		}
		if v, ok := constant.Int64Val(co.Val()); !ok || v != 2 {
			r.Bad("C10/at-most-twice", "constant "+n, c.Pos(co.Pos()), fmt.Sprintf("%s is %s: a credential may be offered more than twice", n, co.Val()))
		}
	}
	// classes
	h := c.LookupFunc("channel", "Channel", "sshMessageHandler")
	if h == nil {
		r.Anchor("C10/classes", "(*channel.Channel).sshMessageHandler")
	} else {
		ok := true
		n := 0
		allInstrs(h, func(in ssa.Instruction) {
			ret, isRet := in.(*ssa.Return)
			if !isRet || len(ret.Results) != 1 || isNilConst(ret.Results[0]) {
				return
			}
			n++
			wraps := false
			for _, cl := range returnErrClasses(ret.Results[0], 0) {
				if cl.wraps != nil && cl.wraps.Name() == "ErrConnectionError" {
					wraps = true
				}
			}
			if !wraps {
				ok = false
			}
		})
		r.Check(ok && n > 0, "C10/classes", "sshMessageHandler", c.Pos(h.Pos()), "non-nil results wrap ErrConnectionError", "a recognised ssh client failure message is not reported as an error wrapping ErrConnectionError")
	}
	checkOpenCleanup(c, r)
}

func authErrorOnBlock(b *ssa.BasicBlock) bool {
	// the block (or its straight-line successors) builds &result{nil, fmt.Errorf("%w", ErrAuthError)} and returns it
	found := false
	seen := map[*ssa.BasicBlock]bool{}
	for cur := b; cur != nil && !seen[cur]; {
		seen[cur] = true
		for _, in := range cur.Instrs {
			if st, ok := in.(*ssa.Store); ok {
				for _, cl := range returnErrClasses(st.Val, 0) {
					if cl.wraps != nil && cl.wraps.Name() == "ErrAuthError" {
						found = true
					}
				}
			}
			// a helper that does nothing but build that result
			if call, ok := in.(*ssa.Call); ok {
				if sc := call.Call.StaticCallee(); sc != nil && sc.Pkg != nil && isLibPkgPath(sc.Pkg.Pkg.Path()) && len(sc.Blocks) > 0 && sc != b.Parent() {
					nret := 0
					allInstrs(sc, func(i2 ssa.Instruction) {
						if isReturn(i2) {
							nret++
						}
					})
					if nret == 1 && authErrorOnBlock(sc.Blocks[0]) {
						found = true
					}
				}
			}
			if _, ok := in.(*ssa.Return); ok {
				return found
			}
		}
		if len(cur.Succs) == 1 {
			cur = cur.Succs[0]
		} else {
			break
		}
	}
	return false
}

// authBytes: v is the byte result of an Authenticate* call: directly, as a phi of such results and nil, or as the
// result of a helper of the same package all of whose returns hand back such a result or nil.
func authBytes(v ssa.Value, home *ssa.Function, depth int) bool {
	if depth > 2 {
		return false
	}
	switch x := v.(type) {
	case *ssa.Extract:
		cl, ok := x.Tuple.(*ssa.Call)
		if !ok || x.Index != 0 {
			return false
		}
		sc := cl.Call.StaticCallee()
		if sc == nil {
			return false
		}
		if strings.HasPrefix(sc.Name(), "Authenticate") {
			return true
		}
		if sc.Pkg != home.Pkg || len(sc.Blocks) == 0 {
			return false
		}
		some, all := false, true
		allInstrs(sc, func(in ssa.Instruction) {
			ret, ok := in.(*ssa.Return)
			if !ok || len(ret.Results) == 0 {
				return
			}
			switch {
			case isNilConst(ret.Results[0]):
			case authBytes(ret.Results[0], home, depth+1):
				some = true
			default:
				all = false
			}
		})
		return some && all
	case *ssa.Phi:
		some := false
		for _, e := range x.Edges {
			switch {
			case isNilConst(e):
			case authBytes(e, home, depth+1):
				some = true
			default:
				return false
			}
		}
		return some
	}
	return false
}

func checkOpenCleanup(c *Ctx, r *Report) {
	rule := "C10/cleanup-requeue"
	open := c.LookupFunc("channel", "Channel", "Open")
	tOpen := c.LookupFunc("transport", "Transport", "Open")
	chClose := c.LookupFunc("channel", "Channel", "Close")
	requeue := c.LookupFunc("util", "Queue", "Requeue")
	read := c.LookupFunc("channel", "Channel", "read")
	if open == nil || tOpen == nil || chClose == nil || requeue == nil || read == nil {
		r.Anchor(rule, "(*channel.Channel).Open / Transport.Open / Close / Queue.Requeue / read")
		return
	}
	var openCall, goRead ssa.Instruction
	for _, ci := range callInstrs(open) {
		if ci.Common().StaticCallee() == tOpen {
			openCall = ci
		}
		if g, ok := ci.(*ssa.Go); ok && g.Call.StaticCallee() == read {
			goRead = g
		}
	}
	okDefer := false
	for _, ci := range callInstrs(open) {
		d, ok := ci.(*ssa.Defer)
		if !ok {
			continue
		}
		mc, ok := d.Call.Value.(*ssa.MakeClosure)
		if !ok {
			continue
		}
		clos := mc.Fn.(*ssa.Function)
		closes := staticCallsTo(clos, chClose)
		if len(closes) == 0 {
			continue
		}
		conds := edgeConds(closes[0].Block())
		simple := len(conds) == 1
		if simple {
			x, nonNil, isNil := nilCheck(conds[0].Cond)
			simple = isNil && nonNil == conds[0].Truth && isNamedResultLoad(x, open, mc)
		}
		if simple && openCall != nil && goRead != nil && dominatesInstr(openCall, d) && dominatesInstr(d, goRead) {
			okDefer = true
		}
	}
	r.Check(okDefer, rule, "Open closes the channel on failure", c.Pos(open.Pos()), "deferred Close under reterr != nil, installed after the transport opened and before the reader starts",
		"Channel.Open does not unconditionally close the channel (and transport) when it returns an error after the transport was opened: a failed login leaves the transport / ssh child / reader goroutine behind")
	// the channel close that the failure path relies on closes the transport whatever state the reader is in
	if tClose := c.LookupFunc("transport", "Transport", "Close"); tClose == nil {
		r.Anchor(rule, "(*transport.Transport).Close")
	} else if ret, rr := mustCallBeforeReturn(c, chClose, func(in ssa.Instruction) bool {
		ci, ok := in.(*ssa.Call)
		return ok && ci.Call.StaticCallee() == tClose
	}); ret != nil {
		r.Bad(rule, "Channel.Close closes the transport on every path", c.Pos(ret.Pos()), "Channel.Close can return without closing the transport (e.g. when the reader already exited because the device hung up during login): the failed Open leaves the socket / ssh child open", rr.witness(c, ret)...)
	} else {
		r.OK(rule, "Channel.Close closes the transport on every path", c.Pos(chClose.Pos()), "every return is preceded by Transport.Close")
	}
	// requeue
	okRq := false
	extraGuard := ""
	for _, ci := range staticCallsTo(open, requeue) {
		call := ci.(*ssa.Call)
		arg := call.Call.Args[1]
		// arg: (phi of) results of the Authenticate* calls, possibly handed through a helper of this package
		fromAuth := authBytes(arg, open, 0)
		// guarded only by len(b) > 0 (or != 0)
		guardOK := guardedBy(call, func(v ssa.Value, t bool) bool {
			bo, ok := v.(*ssa.BinOp)
			if !ok {
				return false
			}
			l := linOf(bo.X, 0)
			_, isLen := l.coef["len("+arg.Name()+")"]
			k, isC := constInt(bo.Y)
			return isLen && isC && k == 0 && ((bo.Op == token.GTR && t) || (bo.Op == token.NEQ && t) || (bo.Op == token.EQL && !t) || (bo.Op == token.LEQ && !t))
		})
		okRq = fromAuth && guardOK
		// what is requeued is what *every* login dialogue of Open consumed: the bytes result of each Authenticate* call
		// made here is among the values that merge into the argument (a result that lands in a variable of its own --
		// `b, err := ...` inside one case -- never reaches the requeue)
		leaves := map[ssa.Value]bool{}
		var walkPhi func(v ssa.Value, d int)
		walkPhi = func(v ssa.Value, d int) {
			if d > 6 || leaves[v] {
				return
			}
			leaves[v] = true
			if ph, isPhi := v.(*ssa.Phi); isPhi {
				for _, e := range ph.Edges {
					walkPhi(e, d+1)
				}
			}
		}
		walkPhi(arg, 0)
		for _, ci := range callInstrs(open) {
			ac, isCall := ci.(*ssa.Call)
			if !isCall {
				continue
			}
			sc := ac.Call.StaticCallee()
			if sc == nil || !strings.HasPrefix(sc.Name(), "Authenticate") || sc.Signature.Results().Len() != 2 {
				continue
			}
			if res := resultOf(ac, 0); res == nil || !leaves[res] {
				extraGuard = fmt.Sprintf("the bytes %s hands back at %s never reach the requeue at %s: what that login consumed (banner, first prompt) is not put back for the first operation", shortFn(sc), c.Pos(ac.Pos()), c.Pos(call.Pos()))
			}
		}
		// ... and by nothing else that depends on the kind of login: whatever was consumed, by either dialogue, goes back
		for _, ec := range edgeConds(call.Block()) {
			v, _ := unwrapNot(ec.Cond)
			if x, _, isNil := nilCheck(ec.Cond); isNil && (x == arg || isErrorType(x.Type())) {
				continue
			}
			if bo, ok := v.(*ssa.BinOp); ok {
				if _, isLen := linOf(bo.X, 0).coef["len("+arg.Name()+")"]; isLen {
					continue
				}
			}
			if f, _, ok := fieldLoad(v); ok && f != nil && types.Identical(f.Type().Underlying(), types.Typ[types.Bool]) {
				continue
			}
			extraGuard = fmt.Sprintf("the requeue at %s additionally depends on the condition at %s: what one kind of login consumed (the banner and first prompt of a telnet session, the NETCONF hello of an ssh session) is not put back", c.Pos(call.Pos()), c.Pos(ec.Cond.Pos()))
		}
	}
	if extraGuard != "" {
		r.Bad(rule, "Open requeues whatever kind of login consumed it", c.Pos(open.Pos()), extraGuard)
	} else if okRq {
		r.OK(rule, "Open requeues whatever kind of login consumed it", c.Pos(open.Pos()), "the requeue depends on nothing but the bytes being there")
	}
	r.Check(okRq, rule, "Open requeues what the login consumed", c.Pos(open.Pos()), "Requeue(b) when len(b) > 0",
		"the bytes read during login are not put back (exactly when there are any): the first operation after Open misses the prompt / NETCONF hello that login already consumed")
	_ = types.Typ
}
