package main

// C17/fresh-definition — every load of a platform definition yields objects of its own: the platform package
// keeps no package-level state that is written at run time (a cache of parsed definitions hands the same
// Default / variants / Platform pointers to every caller; a variant merge or a second host then rewrites what
// an earlier caller is still using).

import (
	"fmt"
	"strings"

	"golang.org/x/tools/go/ssa"
)

func checkFreshDefinition(c *Ctx, r *Report) {
	rule := "C17/fresh-definition"
	pkg := c.SSAPkg[modPath+"/platform"]
	if pkg == nil {
		r.Anchor(rule, "package platform")
		return
	}
	scanned := 0
	var bad []string
	badPos := ""
	for _, fn := range c.LibFns {
		if fn.Pkg != pkg || fn.Name() == "init" {
			continue
		}
		scanned++
		note := func(in ssa.Instruction, g *ssa.Global, how string) {
			bad = append(bad, fmt.Sprintf("%s %s in %s", g.Name(), how, shortFn(fn)))
			if badPos == "" {
				badPos = c.Pos(in.Pos())
			}
		}
		own := func(v ssa.Value) *ssa.Global {
			g, ok := v.(*ssa.Global)
			if ok && g.Pkg == pkg {
				return g
			}
			return nil
		}
		allInstrs(fn, func(in ssa.Instruction) {
			switch x := in.(type) {
			case *ssa.Store:
				if g := own(x.Addr); g != nil {
					note(in, g, "is assigned")
				}
				if fa, ok := x.Addr.(*ssa.FieldAddr); ok {
					if g := own(fa.X); g != nil {
						note(in, g, "has a field assigned")
					}
				}
			case *ssa.MapUpdate:
				if u, ok := x.Map.(*ssa.UnOp); ok {
					if g := own(u.X); g != nil {
						note(in, g, "is inserted into")
					}
				}
			case ssa.CallInstruction:
				for _, a := range x.Common().Args {
					if g := own(a); g != nil {
						note(in, g, "is passed by address to "+describeCall(c, x))
					}
				}
			}
		})
	}
	if len(bad) > 0 {
		r.Bad(rule, "package platform keeps no run-time state", badPos, "package-level state of the platform package is modified at run time ("+strings.Join(uniq(bad), "; ")+"): objects handed to one caller of NewPlatform / NewPlatformVariant are shared with the next one, so loading a variant changes the base platform loaded afterwards (or before), and two hosts end up with one Platform")
	} else {
		r.OK(rule, "package platform keeps no run-time state", "-", fmt.Sprintf("%d functions scanned: no store to, insert into, or by-address use of a package-level variable of the package", scanned))
	}
	if scanned < 10 {
		r.Unk(rule, "platform functions", "-", fmt.Sprintf("only %d functions of package platform found", scanned))
	}
}
