package main

// C13 — failure marking and stop-on-failed follow the configured failure strings.

import (
	"fmt"
	"go/token"
	"strings"

	"golang.org/x/tools/go/ssa"
)

var specGenericOpOptions = map[string][]string{
	"WithStopOnFailed":       {"generic.OperationOptions.StopOnFailed<-const:true"},
	"WithFailedWhenContains": {"generic.OperationOptions.FailedWhenContains<-param0"},
}

func init() {
	register(&Property{
		ID:  "C13",
		Run: runC13,
		Explanation: "Decision tables (path enumeration of loop-free SSA) and path rules for failure marking: precedence — in sendCommand, SendInteractive and SendWithCallbacks the driver-level failure list is used exactly when the operation-level list is empty and the resulting list is the one handed to NewResponse; mark — Response.Record stores a non-nil Failed exactly on the non-empty edge of the substring scan of the recorded output against that list (and the scan helper returns the first contained string, else empty); " +
			"stop — in SendCommands every response is appended before the stop test, the only early success return is guarded by StopOnFailed && Failed != nil and no further command is sent after it, every other early exit returns the transport error; aggregate — AppendResponse appends the member on every path and records a member's OperationError in the aggregate; SendConfig copies the aggregate's Failed and joins exactly the members' results. The two operation options store the setting they name. " +
			"NOT decided: where failure strings occur in device output (run-time values) — not needed, the scan is a library substring search.",
		Assumptions: []string{"strings.Contains is the substring predicate"},
		Mutants: []Mutant{
			{ID: "C13-failed-as-multi-error", Desc: "Record stores a *MultiOperationError, which the aggregate does not recognise as a failed member", Rule: "C13/failed-types-agree",
				Edits: []Edit{{File: "response/response.go", Old: "\t\tr.Failed = &OperationError{\n\t\t\tInput:       r.Input,\n\t\t\tOutput:      r.Result,\n\t\t\tErrorString: s,\n\t\t}\n", New: "\t\tr.Failed = &MultiOperationError{Operations: []*OperationError{{\n\t\t\tInput:       r.Input,\n\t\t\tOutput:      r.Result,\n\t\t\tErrorString: s,\n\t\t}}}\n"}}},
			{ID: "C13-long-lines-split", Desc: "LoadFileLines reads with ReadLine and ignores the continuation flag", Rule: "C13/file-lines",
				Edits: []Edit{{File: "util/file.go", Old: "\tscanner := bufio.NewScanner(file)\n\tscanner.Split(bufio.ScanLines)\n\n\tvar lines []string\n\n\tfor scanner.Scan() {\n\t\tlines = append(lines, scanner.Text())\n\t}\n", New: "\treader := bufio.NewReader(file)\n\n\tvar lines []string\n\n\tfor {\n\t\tline, _, readErr := reader.ReadLine()\n\t\tif readErr != nil {\n\t\t\tbreak\n\t\t}\n\n\t\tlines = append(lines, string(line))\n\t}\n"}}},
			{ID: "C13-stop-on-success", Desc: "stop-on-failed stops on the first successful command", Rule: "C13/stop",
				Edits: []Edit{{File: "driver/generic/sendcommands.go", Old: "if op.StopOnFailed && r.Failed != nil {", New: "if op.StopOnFailed && r.Failed == nil {"}}},
			{ID: "C13-precedence-inverted", Desc: "interactive failure list precedence inverted", Rule: "C13/precedence",
				Edits: []Edit{{File: "driver/generic/sendinteractive.go", Old: "\tif len(op.FailedWhenContains) == 0 {", New: "\tif len(op.FailedWhenContains) != 0 {"}}},
			{ID: "C13-stop-before-append", Desc: "failed response not included when stopping", Rule: "C13/stop",
				Edits: []Edit{{File: "driver/generic/sendcommands.go", Old: "\t\tm.AppendResponse(r)\n\n\t\tif op.StopOnFailed && r.Failed != nil {\n\t\t\td.Logger.Info(\n\t\t\t\t\"encountered failed command, and stop on failed is true,\" +\n\t\t\t\t\t\" discontinuing send commands operation\",\n\t\t\t)\n\n\t\t\treturn m, err\n\t\t}\n", New: "\t\tif op.StopOnFailed && r.Failed != nil {\n\t\t\td.Logger.Info(\n\t\t\t\t\"encountered failed command, and stop on failed is true,\" +\n\t\t\t\t\t\" discontinuing send commands operation\",\n\t\t\t)\n\n\t\t\treturn m, err\n\t\t}\n\n\t\tm.AppendResponse(r)\n"}}},
			{ID: "C13-scan-breaks-early", Desc: "failure scan stops at the first list entry longer than the output", Rule: "C13/mark",
				Edits: []Edit{{File: "util/strings.go", Old: "func StringContainsAnySubStrs(s string, l []string) string {\n\tfor _, ss := range l {\n", New: "func StringContainsAnySubStrs(s string, l []string) string {\n\tfor _, ss := range l {\n\t\tif len(ss) > len(s) {\n\t\t\tbreak\n\t\t}\n\n"}}},
			{ID: "C13-network-drops-options", Desc: "network SendCommand forwards no per-operation options to the generic driver", Rule: "C13/opts-forwarded",
				Edits: []Edit{{File: "driver/network/sendcommand.go", Old: "return d.Driver.SendCommand(command, opts...)", New: "return d.Driver.SendCommand(command)"}}},
			{ID: "C13-shared-default-operation", Desc: "NewOperation returns a shared default object when no options are given", Rule: "C13/fresh-operation",
				Edits: []Edit{{File: "driver/generic/operation.go", Old: "func NewOperation(options ...util.Option) (*OperationOptions, error) {\n", New: "var defaultOperation = &OperationOptions{FailedWhenContains: []string{}}\n\nfunc NewOperation(options ...util.Option) (*OperationOptions, error) {\n\tif len(options) == 0 {\n\t\treturn defaultOperation, nil\n\t}\n\n"}}},
			{ID: "C13-mark-on-empty", Desc: "response marked failed when nothing matched", Rule: "C13/mark",
				Edits: []Edit{{File: "response/response.go", Old: "\tif s != \"\" {", New: "\tif s == \"\" {"}}},
			{ID: "C13-aggregate-first-only", Desc: "aggregate records only the first failed member", Rule: "C13/aggregate",
				Edits: []Edit{{File: "response/multi.go", Old: "\t\te, ok := mr.Failed.(*MultiOperationError)\n\t\tif ok {\n\t\t\te.Operations = append(e.Operations, re)\n\t\t}", New: "\t\te, ok := mr.Failed.(*MultiOperationError)\n\t\tif ok && len(e.Operations) == 0 {\n\t\t\te.Operations = append(e.Operations, re)\n\t\t}"}}},
			{ID: "C13-scan-raw-not-result", Desc: "scan helper returns the last match", Rule: "C13/mark",
				Edits: []Edit{{File: "util/strings.go", Old: "\tfor _, ss := range l {\n\t\tif strings.Contains(s, ss) {\n\t\t\treturn ss\n\t\t}\n\t}\n\n\treturn \"\"", New: "\tfound := \"\"\n\n\tfor _, ss := range l {\n\t\tif strings.Contains(ss, s) {\n\t\t\tfound = ss\n\t\t}\n\t}\n\n\treturn found"}}},
			{ID: "C13-sendconfig-drops-failed", Desc: "collapsed config response loses the failure", Rule: "C13/aggregate",
				Edits: []Edit{{File: "driver/network/sendconfig.go", Old: "\tr.Failed = m.Failed\n", New: ""}}},
			{ID: "C13-stop-option-noop", Desc: "WithStopOnFailed sets nothing", Rule: "C13/options",
				Edits: []Edit{{File: "driver/opoptions/generic.go", Old: "\t\td.StopOnFailed = true\n", New: "\t\td.StopOnFailed = d.StopOnFailed || false\n"}}},
			{ID: "C13-callbacks-driver-list", Desc: "SendWithCallbacks always uses the driver failure list", Rule: "C13/precedence",
				Edits: []Edit{{File: "driver/generic/sendwithcallbacks.go", Old: "\tif len(driverOpts.FailedWhenContains) == 0 {\n\t\tdriverOpts.FailedWhenContains = d.FailedWhenContains\n\t}\n\n\tr := response.NewResponse(\n\t\tinput,", New: "\tdriverOpts.FailedWhenContains = d.FailedWhenContains\n\n\tr := response.NewResponse(\n\t\tinput,"}}},
			{ID: "C13-last-command-unrecorded", Desc: "last command's response not appended", Rule: "C13/stop",
				Edits: []Edit{{File: "driver/generic/sendcommands.go", Old: "\tm.AppendResponse(r)\n\n\treturn m, nil\n}", New: "\tif r.Failed == nil {\n\t\tm.AppendResponse(r)\n\t}\n\n\treturn m, nil\n}"}}},
		},
	})
}

func runC13(c *Ctx, r *Report) {
	importFoundation(c, r, "C13", "search-window")
	importFoundation(c, r, "C13", "driver-options")
	r.Rule("C13/settings-writers", "the generic driver rewrites no per-operation setting behind the caller's options (stop-on-failed, eager, failure strings are what the caller passed)", 1)
	checkSettingsWriters(c, r, "C13/settings-writers", []string{"driver/generic"})
	r.Rule("C13/no-shadow", "network.Driver re-declares no same-typed setting of the generic driver it embeds (FailedWhenContains stays one setting)", 1)
	checkNoShadowedSettings(c, r, "C13/no-shadow")
	r.Rule("C13/file-lines", "the from-file variants get one command per line of the file, whatever its length (a line reader's continuation flag is not ignored)", 1)
	checkFileLines(c, r, "C13/file-lines")
	r.Rule("C13/fresh-operation", "generic.NewOperation and network.NewOperation hand every caller a freshly allocated options object", 2)
	checkFreshOperation(c, r, "C13/fresh-operation", []string{"driver/generic", "driver/network"})
	r.Rule("C13/precedence", "the driver failure list is used exactly when the operation list is empty, and that list is given to NewResponse", 6)
	r.Rule("C13/mark", "Record marks failed exactly on a non-empty match of the recorded output; the scan helper returns the first contained string and tests every element until a match", 4)
	r.Rule("C13/op-options-applied", "generic.NewOperation applies the full per-operation option list (stop-on-failed, failure strings) in order", 1)
	r.Rule("C13/opts-forwarded", "every generic- and network-driver operation hands its full per-operation option list to each option-taking library callee", 5)
	r.Rule("C13/stop", "every response appended before the stop test; early success only under StopOnFailed && Failed != nil; no command after it", 2)
	importFoundation(c, r, "C13", "ansi")
	r.Rule("C13/post-process", "(restated from C01) processOut removes the prompt line only: text of the answer that follows a prompt-like line -- the device's error message -- stays in the result the failure strings are looked for in", 3)
	importObligations(r, func(sub *Report) { checkProcessOut(c, sub) }, "C01/post-process", "C13/post-process")
	r.Rule("C13/failed-types-agree", "every concrete type stored to Response.Failed is one MultiResponse.AppendResponse asserts when it decides whether a member failed", 1)
	checkFailedTypesAgree(c, r, "C13/failed-types-agree")
	r.Rule("C13/aggregate", "AppendResponse appends on every path and records member failures; SendConfig copies Failed and joins members' results", 4)
	r.Rule("C13/options", "WithStopOnFailed / WithFailedWhenContains store the setting they name", 4)

	newResp := c.LookupFunc("response", "", "NewResponse")
	for _, sp := range []struct {
		name   string
		optKey func(fn *ssa.Function) string
	}{
		{"sendCommand", func(fn *ssa.Function) string { return "param:" + fn.Params[2].Name() }},
		{"SendInteractive", nil},
		{"SendWithCallbacks", nil},
	} {
		fn := c.LookupFunc("driver/generic", "Driver", sp.name)
		if fn == nil || newResp == nil {
			r.Anchor("C13/precedence", "(*generic.Driver)."+sp.name+" / response.NewResponse")
			continue
		}
		d := "param:" + fn.Params[0].Name()
		paths := EnumeratePaths(c, fn, &dtConfig{IsAtomCall: func(call *ssa.Call) bool {
			o := CalleeObj(call)
			return o != nil && o.Pkg() != nil && (o.Pkg().Path() == "fmt" || o.Pkg().Path() == "strings")
		}, MaxPaths: 512})
		var okEmpty, okSet, seenEmpty, seenSet bool
		okEmpty, okSet = true, true
		msg := ""
		for _, p := range paths {
			if p.Undecided != "" {
				msg = p.Undecided
				okEmpty = false
				break
			}
			// which literal about the operation list?
			lit := ""
			opKey := ""
			for k, v := range p.Assume {
				if strings.HasPrefix(k, "len(") && strings.HasSuffix(k, ".FailedWhenContains)") && !strings.Contains(k, d+".FailedWhenContains") {
					lit = v
					opKey = strings.TrimSuffix(strings.TrimPrefix(k, "len("), ")")
				}
			}
			var nr *dtEffect
			for i := range p.Effects {
				if p.Effects[i].Kind == "call" && p.Effects[i].What == "response.NewResponse" {
					nr = &p.Effects[i]
				}
			}
			if nr == nil {
				continue // error before the response is created
			}
			if lit == "" {
				okEmpty, okSet = false, false
				msg = "the failure list given to NewResponse does not depend on whether the operation list is empty"
				continue
			}
			list := nr.Args[len(nr.Args)-1]
			if lit == "=0" {
				seenEmpty = true
				if list != d+".FailedWhenContains" {
					okEmpty = false
					msg = "with an empty operation list NewResponse gets " + list + ", not the driver's list"
				}
			} else {
				seenSet = true
				if list != opKey {
					okSet = false
					msg = "with a non-empty operation list NewResponse gets " + list + ", not the operation's list"
				}
			}
		}
		construct := shortFn(fn)
		r.Check(okEmpty && seenEmpty, "C13/precedence", construct+" empty operation list", c.Pos(fn.Pos()), "driver list used", "failure-string precedence: "+msg)
		r.Check(okSet && seenSet, "C13/precedence", construct+" non-empty operation list", c.Pos(fn.Pos()), "operation list used", "failure-string precedence: "+msg)
	}

	checkRecordMark(c, r)
	checkOptsForwarded(c, r, "C13/opts-forwarded", [][2]string{{"driver/generic", "Driver"}, {"driver/network", "Driver"}})
	checkOperationApplyLoop(c, r, "C13/op-options-applied", "driver/generic")
	checkStopOnFailed(c, r)
	checkAggregate(c, r)
	only := map[string]bool{"WithStopOnFailed": true, "WithFailedWhenContains": true}
	sub := NewReport("C13")
	checkOptionTable(c, sub, "C13x", "driver/opoptions", specGenericOpOptions, only)
	for _, o := range sub.Obs {
		construct := strings.TrimPrefix(o.Key, o.Rule+" @ ")
		r.add("C13/options", construct+" ("+strings.TrimPrefix(o.Rule, "C13x/")+")", o.Status, o.Pos, o.Msg, nil)
	}
}

func checkRecordMark(c *Ctx, r *Report) {
	rule := "C13/mark"
	fn := c.LookupFunc("response", "Response", "Record")
	scan := c.LookupFunc("util", "", "StringContainsAnySubStrs")
	if fn == nil || scan == nil {
		r.Anchor(rule, "(*response.Response).Record / util.StringContainsAnySubStrs")
		return
	}
	rk := "param:" + fn.Params[0].Name()
	bk := "param:" + fn.Params[1].Name()
	paths := EnumeratePaths(c, fn, &dtConfig{IsAtomCall: func(call *ssa.Call) bool { return call.Call.StaticCallee() == scan }})
	okHit, okMiss := false, false
	msg := ""
	scanKey := "util.StringContainsAnySubStrs(" + bk + "," + rk + ".FailedWhenContains)"
	for _, p := range paths {
		if p.Undecided != "" {
			msg = p.Undecided
			continue
		}
		lit, has := p.Assume[scanKey]
		_, failedStored := lastStore(p, ".Failed")
		res, _ := lastStore(p, ".Result")
		if res != bk {
			msg = "Result is not the recorded output"
			continue
		}
		if !has {
			msg = "Record does not branch on the scan of the recorded output against the response's failure list (" + fmt.Sprint(p.Assume) + ")"
			continue
		}
		if lit == `=""` {
			okMiss = !failedStored
			if failedStored {
				msg = "Failed is set although no failure string matched"
			}
		} else {
			fv, _ := lastStore(p, ".Failed")
			okHit = failedStored && fv != "nil"
			if !okHit {
				msg = "a matching failure string does not set Failed"
			}
		}
	}
	r.Check(okHit, rule, "Record match -> failed", c.Pos(fn.Pos()), "non-empty match sets Failed", "Response.Record: "+msg)
	r.Check(okMiss, rule, "Record no match -> not failed", c.Pos(fn.Pos()), "empty match leaves Failed nil", "Response.Record: "+msg)
	checkExistsHelper(c, r, rule, scan, "contains(param,elem)", "'first element of the list contained in s'")
	// scan helper: range loop; returns the element on strings.Contains(s, element) true; "" after the loop
	okScan := false
	var containsCall *ssa.Call
	for _, ci := range callInstrs(scan) {
		if o := CalleeObj(ci); o != nil && o.Pkg() != nil && o.Pkg().Path() == "strings" && o.Name() == "Contains" {
			containsCall, _ = ci.(*ssa.Call)
		}
	}
	if containsCall != nil {
		hay, needle := containsCall.Call.Args[0], containsCall.Call.Args[1]
		var idx ssa.Value
		if u, ok := needle.(*ssa.UnOp); ok {
			if ia, ok := u.X.(*ssa.IndexAddr); ok && ia.X == ssa.Value(scan.Params[1]) {
				idx = ia.Index
			}
		}
		if hay == ssa.Value(scan.Params[0]) && rangeHeader(idx) != nil {
			// true edge returns the needle; loop exit returns ""
			for _, ref := range *containsCall.Referrers() {
				if ifi, ok := ref.(*ssa.If); ok {
					tb := ifi.Block().Succs[0]
					if n := len(tb.Instrs); n > 0 {
						if ret, ok := tb.Instrs[n-1].(*ssa.Return); ok && len(ret.Results) == 1 && ret.Results[0] == needle {
							okScan = true
						}
					}
				}
			}
			allInstrs(scan, func(in ssa.Instruction) {
				if ret, ok := in.(*ssa.Return); ok && len(ret.Results) == 1 && ret.Results[0] != needle {
					if s, isC := constString(ret.Results[0]); !isC || s != "" {
						okScan = false
					}
				}
			})
		}
	}
	r.Check(okScan, rule, "scan helper", c.Pos(scan.Pos()), "first list element contained in the output, else empty",
		"util.StringContainsAnySubStrs is not 'return the first list element that the output contains, else the empty string'")
}

func checkStopOnFailed(c *Ctx, r *Report) {
	rule := "C13/stop"
	fn := c.LookupFunc("driver/generic", "Driver", "SendCommands")
	send := c.LookupFunc("driver/generic", "Driver", "sendCommand")
	app := c.LookupFunc("response", "MultiResponse", "AppendResponse")
	if fn == nil || send == nil || app == nil {
		r.Anchor(rule, "(*generic.Driver).SendCommands / sendCommand / AppendResponse")
		return
	}
	sends := staticCallsTo(fn, send)
	if len(sends) == 0 {
		r.Unk(rule, "SendCommands", c.Pos(fn.Pos()), "no sendCommand call")
		return
	}
	isSend := func(in ssa.Instruction) bool {
		ci, ok := in.(*ssa.Call)
		return ok && ci.Call.StaticCallee() == send
	}
	for i, sc := range sends {
		call := sc.(*ssa.Call)
		resp := resultOf(call, 0)
		errv := resultOf(call, 1)
		construct := fmt.Sprintf("SendCommands sendCommand#%d", i+1)
		// (1) on the err == nil edge, every path to the next sendCommand or a return passes AppendResponse(resp)
		isAppend := func(in ssa.Instruction) bool {
			ci, ok := in.(*ssa.Call)
			return ok && ci.Call.StaticCallee() == app && len(ci.Call.Args) == 2 && ci.Call.Args[1] == resp
		}
		ef := func(b *ssa.BasicBlock, si int) bool {
			cond := ifCond(b)
			if cond == nil {
				return true
			}
			x, nonNilOnTrue, ok := nilCheck(cond)
			if !ok || x != errv {
				return true
			}
			if nonNilOnTrue {
				return si == 1
			}
			return si == 0
		}
		rr := reachFrom(fn, call, func(in ssa.Instruction) bool { return isAppend(in) }, ef)
		missing := ""
		for in := range rr.visited {
			if isAppend(in) {
				continue
			}
			if isReturn(in) {
				missing = fmt.Sprintf("the response of a command that was sent is not appended before the return at %s", c.Pos(in.Pos()))
			}
			if isSend(in) && in != ssa.Instruction(call) {
				missing = "the next command is sent before the previous response was appended"
			}
			if in == ssa.Instruction(call) {
				missing = "the loop sends the next command before the previous response was appended"
			}
		}
		if missing != "" {
			r.Bad(rule, construct+" response appended", c.Pos(call.Pos()), missing)
		} else {
			r.OK(rule, construct+" response appended", c.Pos(call.Pos()), "AppendResponse on every success path before anything else")
		}
		// (2) error edge returns the error (covered by C06); (3) early success returns
	}
	// early success return: a Return of (m, ·) that is inside the command loop region (dominated by a sendCommand inside a loop)
	nEarly := 0
	stopF := c.LookupField("driver/generic", "OperationOptions", "StopOnFailed")
	failedF := c.LookupField("response", "Response", "Failed")
	allInstrs(fn, func(in ssa.Instruction) {
		ret, ok := in.(*ssa.Return)
		if !ok || len(ret.Results) != 2 || isNilConst(ret.Results[0]) {
			return
		}
		// is some sendCommand still reachable had we not returned? (i.e. this return sits inside the loop)
		inLoop := false
		for _, hb := range fn.Blocks {
			for _, p := range hb.Preds {
				if hb.Dominates(p) {
					lb := loopBlocks(hb)
					for _, pr := range ret.Block().Preds {
						// leaving through the loop header is the ordinary end of the loop (range exhausted / condition false)
						if lb[pr] && pr != hb && !leavesAtLastIndex(hb, pr, ret.Block()) {
							inLoop = true
						}
					}
				}
			}
		}
		if !inLoop {
			return
		}
		nEarly++
		hasStop, hasFailed := false, false
		for _, ec := range edgeConds(ret.Block()) {
			v, neg := unwrapNot(ec.Cond)
			truth := ec.Truth
			if neg {
				truth = !truth
			}
			if f, _, ok := fieldLoad(v); ok && f == stopF && truth {
				hasStop = true
			}
			if x, nonNilOnTrue, ok := nilCheck(v); ok && nonNilOnTrue == truth {
				if f, _, ok := fieldLoad(x); ok && f == failedF {
					hasFailed = true
				}
			}
		}
		r.Check(hasStop && hasFailed, rule, fmt.Sprintf("SendCommands early return#%d", nEarly), c.Pos(ret.Pos()), "guarded by StopOnFailed && Failed != nil",
			fmt.Sprintf("SendCommands stops sending commands early on a condition other than StopOnFailed && Failed != nil (StopOnFailed tested: %v, Failed != nil tested: %v)", hasStop, hasFailed))
	})
	if nEarly == 0 {
		r.Bad(rule, "SendCommands early return", c.Pos(fn.Pos()), "SendCommands never stops after a failed command: with stop-on-failed the remaining commands are still transmitted")
	}
}

func checkAggregate(c *Ctx, r *Report) {
	rule := "C13/aggregate"
	fn := c.LookupFunc("response", "MultiResponse", "AppendResponse")
	if fn == nil {
		r.Anchor(rule, "(*response.MultiResponse).AppendResponse")
		return
	}
	mr := "param:" + fn.Params[0].Name()
	rk := "param:" + fn.Params[1].Name()
	paths := EnumeratePaths(c, fn, &dtConfig{})
	okAppend := true
	okFirst, okLater := true, true
	seenFirst, seenLater := false, false
	msg := ""
	memberErr := rk + ".Failed.(response.OperationError)#0"
	for _, p := range paths {
		if p.Undecided != "" {
			okAppend = false
			msg = p.Undecided
			continue
		}
		resp, ok := lastStore(p, ".Responses")
		if !ok || resp != "append("+mr+".Responses,{"+rk+"})" {
			okAppend = false
			msg = "a path does not append the member to Responses (" + resp + ")"
		}
		if p.Assume[memberErr] != "!=nil" {
			// member not failed: aggregate must not become failed
			if v, stored := lastStore(p, mr+".Failed"); stored && v != "nil" {
				okAppend = false
				msg = "the aggregate is marked failed although the member is not"
			}
			continue
		}
		if p.Assume[mr+".Failed"] == "=nil" {
			// first failure: mr.Failed set, Operations gets the member's error
			infeasible := false
			for k, v := range p.Assume {
				if strings.HasPrefix(k, "local:complit.(") && v == "false" {
					infeasible = true // type assertion on the value just created
				}
			}
			if infeasible {
				continue
			}
			seenFirst = true
			good := false
			if v, stored := lastStore(p, mr+".Failed"); stored && v != "nil" {
				for k, lv := range p.Locals {
					if strings.HasSuffix(k, ".Operations") && strings.Contains(lv, memberErr) {
						good = true
					}
				}
			}
			if !good {
				okFirst = false
			}
		} else if p.Assume[mr+".Failed.(response.MultiOperationError)#1"] == "true" {
			seenLater = true
			good := false
			for _, e := range p.Effects {
				if e.Kind == "store" && strings.HasSuffix(e.What, ".Operations") && strings.Contains(e.Args[0], memberErr) && strings.HasPrefix(e.Args[0], "append(") {
					good = true
				}
			}
			if !good {
				okLater = false
			}
		}
	}
	okFirst = okFirst && seenFirst
	okLater = okLater && seenLater
	r.Check(okAppend, rule, "AppendResponse appends the member", c.Pos(fn.Pos()), "on every path", "AppendResponse: "+msg)
	r.Check(okFirst && okLater, rule, "AppendResponse records member failures", c.Pos(fn.Pos()), "first and subsequent failed members are listed in the aggregate",
		fmt.Sprintf("AppendResponse does not list every failed member in the aggregate's error (first failure recorded: %v, later failures recorded: %v)", okFirst, okLater))
	// SendConfig
	sc := c.LookupFunc("driver/network", "Driver", "SendConfig")
	if sc == nil {
		r.Anchor(rule, "(*network.Driver).SendConfig")
		return
	}
	okFailed, okJoin := false, false
	allInstrs(sc, func(in ssa.Instruction) {
		f, _, v, ok := fieldStore(in)
		if !ok {
			return
		}
		if f.Name() == "Failed" {
			if ff, _, isLoad := fieldLoad(v); isLoad && ff.Name() == "Failed" {
				okFailed = true
			}
		}
		if f.Name() == "Result" {
			if call, isCall := v.(*ssa.Call); isCall {
				if o := CalleeObj(call); o != nil && o.Name() == "Join" {
					okJoin = true
				}
			}
		}
	})
	// rOutputs[i] = resp.Result
	okElems := false
	allInstrs(sc, func(in ssa.Instruction) {
		if st, ok := in.(*ssa.Store); ok {
			if _, ok := st.Addr.(*ssa.IndexAddr); ok {
				if f, _, isLoad := fieldLoad(st.Val); isLoad && f.Name() == "Result" {
					okElems = true
				}
			}
		}
	})
	r.Check(okFailed, rule, "SendConfig copies Failed", c.Pos(sc.Pos()), "r.Failed = m.Failed", "the collapsed config response does not carry the multi response's failure")
	r.Check(okJoin && okElems, rule, "SendConfig joins the members' results", c.Pos(sc.Pos()), "strings.Join of each member's Result", "the collapsed config response's result is not the join of the members' results")
}

// leavesAtLastIndex: the edge pr -> out leaves the counted loop with header hb exactly when the induction variable has
// reached its last value (`if i == last { break }` with the loop running while i <= last, or i == n-1 while i < n):
// nothing is skipped, it is the ordinary end of the loop written as a break.
func leavesAtLastIndex(hb, pr, out *ssa.BasicBlock) bool {
	hc, ok := ifCond(hb).(*ssa.BinOp)
	if !ok || (hc.Op != token.LSS && hc.Op != token.LEQ) {
		return false
	}
	phi, ok := hc.X.(*ssa.Phi)
	if !ok || phi.Block() != hb || !isCountingPhi(phi) {
		return false
	}
	bc, ok := ifCond(pr).(*ssa.BinOp)
	if !ok || bc.Op != token.EQL || len(pr.Succs) != 2 || pr.Succs[0] != out {
		return false
	}
	var other ssa.Value
	switch {
	case bc.X == ssa.Value(phi):
		other = bc.Y
	case bc.Y == ssa.Value(phi):
		other = bc.X
	default:
		return false
	}
	d := linOf(hc.Y, 0).addScaled(linOf(other, 0), -1)
	if !d.isConst() {
		return false
	}
	return (hc.Op == token.LEQ && d.c == 0) || (hc.Op == token.LSS && d.c == 1)
}
