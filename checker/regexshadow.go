package main

// Prefix shadowing inside a regular expression constant (regexp/syntax only; nothing is matched against any input).
//
// Go's regexp is leftmost-FIRST: of two alternatives that both match at a position the earlier one wins, even when
// the later one would match more. For a pattern whose matches are *removed* from device output (the ANSI pattern),
// an earlier alternative that can match a proper prefix of what a later alternative matches leaves the tail of a
// complete escape sequence in the stream. The rule decides, for every alternation a_1|...|a_k with continuation S:
//    for i < j:   L(a_i S) . Sigma+  intersected with  L(a_j S)  is empty
// by a product construction over the two compiled programs (syntax.Prog), i.e. NFA intersection emptiness.

import (
	"fmt"
	"go/constant"
	"regexp/syntax"
	"sort"
	"unicode"
)

type shadowFinding struct {
	Earlier, Later string
	Witness        string
}

// regexShadows returns the shadowed pairs of the pattern, or an error when the pattern is outside the vocabulary
// (empty-width assertions inside an alternation's scope make the language construction inexact).
func regexShadows(pat string) ([]shadowFinding, int, error) {
	re, err := syntax.Parse(pat, syntax.Perl)
	if err != nil {
		return nil, 0, err
	}
	var out []shadowFinding
	pairs := 0
	var firstErr error
	var walk func(x *syntax.Regexp, suffix []*syntax.Regexp)
	walk = func(x *syntax.Regexp, suffix []*syntax.Regexp) {
		switch x.Op {
		case syntax.OpConcat:
			for k, s := range x.Sub {
				rest := append(append([]*syntax.Regexp{}, x.Sub[k+1:]...), suffix...)
				walk(s, rest)
			}
		case syntax.OpCapture, syntax.OpQuest:
			walk(x.Sub[0], suffix)
		case syntax.OpStar, syntax.OpPlus:
			star := &syntax.Regexp{Op: syntax.OpStar, Sub: []*syntax.Regexp{x.Sub[0]}, Flags: x.Flags}
			walk(x.Sub[0], append([]*syntax.Regexp{star}, suffix...))
		case syntax.OpAlternate:
			for i := 0; i < len(x.Sub); i++ {
				for j := i + 1; j < len(x.Sub); j++ {
					pairs++
					w, found, err := shorterPrefixOf(concatRe(x.Sub[i], suffix), concatRe(x.Sub[j], suffix))
					if err != nil {
						if firstErr == nil {
							firstErr = err
						}
						continue
					}
					if found {
						out = append(out, shadowFinding{Earlier: x.Sub[i].String(), Later: x.Sub[j].String(), Witness: w})
					}
				}
			}
			for _, s := range x.Sub {
				walk(s, suffix)
			}
		}
	}
	walk(re, nil)
	return out, pairs, firstErr
}

func concatRe(a *syntax.Regexp, suffix []*syntax.Regexp) *syntax.Regexp {
	subs := append([]*syntax.Regexp{a}, suffix...)
	return &syntax.Regexp{Op: syntax.OpConcat, Sub: subs}
}

// shorterPrefixOf: is there u in L(a), v non-empty, with u.v in L(b)?  Returns a witness u.v (as a quoted string).
func shorterPrefixOf(a, b *syntax.Regexp) (string, bool, error) {
	pa, err := syntax.Compile(a.Simplify())
	if err != nil {
		return "", false, err
	}
	pb, err := syntax.Compile(b.Simplify())
	if err != nil {
		return "", false, err
	}
	for _, p := range []*syntax.Prog{pa, pb} {
		for _, in := range p.Inst {
			if in.Op == syntax.InstEmptyWidth {
				return "", false, fmt.Errorf("empty-width assertion inside an alternation's scope")
			}
		}
	}
	reps := representatives(pa, pb)
	const tail0, tail1 = -1, -2 // component-1 states after a's match: zero / at least one extra rune consumed
	closure := func(p *syntax.Prog, pc int) []int {
		seen := map[int]bool{}
		var res []int
		var rec func(pc int)
		rec = func(pc int) {
			if seen[pc] {
				return
			}
			seen[pc] = true
			in := &p.Inst[pc]
			switch in.Op {
			case syntax.InstAlt, syntax.InstAltMatch:
				rec(int(in.Out))
				rec(int(in.Arg))
			case syntax.InstNop, syntax.InstCapture:
				rec(int(in.Out))
			case syntax.InstFail:
			default:
				res = append(res, pc)
			}
		}
		rec(pc)
		return res
	}
	type st struct{ a, b int }
	type node struct {
		s    st
		prev int
		r    rune
	}
	var nodes []node
	seen := map[st]bool{}
	push := func(s st, prev int, r rune) {
		if !seen[s] {
			seen[s] = true
			nodes = append(nodes, node{s, prev, r})
		}
	}
	expandA := func(pc int) []int { // closure of a component-1 pc, mapping Match to tail0
		var res []int
		for _, q := range closure(pa, pc) {
			if pa.Inst[q].Op == syntax.InstMatch {
				res = append(res, tail0)
			} else {
				res = append(res, q)
			}
		}
		return res
	}
	for _, qa := range expandA(pa.Start) {
		for _, qb := range closure(pb, pb.Start) {
			push(st{qa, qb}, -1, 0)
		}
	}
	for i := 0; i < len(nodes); i++ {
		n := nodes[i]
		if n.s.a == tail1 && pb.Inst[n.s.b].Op == syntax.InstMatch {
			var rs []rune
			for k := i; nodes[k].prev >= 0; k = nodes[k].prev {
				rs = append([]rune{nodes[k].r}, rs...)
			}
			return fmt.Sprintf("%q", string(rs)), true, nil
		}
		if pb.Inst[n.s.b].Op == syntax.InstMatch {
			continue
		}
		for _, r := range reps {
			if !pb.Inst[n.s.b].MatchRune(r) {
				continue
			}
			var nextA []int
			switch n.s.a {
			case tail0, tail1:
				nextA = []int{tail1}
			default:
				if pa.Inst[n.s.a].MatchRune(r) {
					nextA = expandA(int(pa.Inst[n.s.a].Out))
				}
			}
			if len(nextA) == 0 {
				continue
			}
			for _, qa := range nextA {
				for _, qb := range closure(pb, int(pb.Inst[n.s.b].Out)) {
					push(st{qa, qb}, i, r)
				}
			}
		}
		if len(nodes) > 2_000_000 {
			return "", false, fmt.Errorf("state space too large")
		}
	}
	return "", false, nil
}

// representatives: one rune per cell of the partition induced by all rune-range boundaries of both programs.
func representatives(ps ...*syntax.Prog) []rune {
	set := map[rune]bool{0: true, '\n': true, unicode.MaxRune: true}
	for r := rune(0); r < 0x300; r++ {
		set[r] = true
	}
	add := func(r rune) {
		if r >= 0 && r <= unicode.MaxRune {
			set[r] = true
			for f := unicode.SimpleFold(r); f != r; f = unicode.SimpleFold(f) {
				set[f] = true
			}
		}
	}
	for _, p := range ps {
		for _, in := range p.Inst {
			switch in.Op {
			case syntax.InstRune, syntax.InstRune1:
				for _, r := range in.Rune {
					add(r - 1)
					add(r)
					add(r + 1)
				}
			case syntax.InstRuneAnyNotNL:
				add('\n' - 1)
				add('\n' + 1)
			}
		}
	}
	var out []rune
	for r := range set {
		out = append(out, r)
	}
	sort.Slice(out, func(i, j int) bool { return out[i] < out[j] })
	return out
}

// checkANSINoShadow: in the escape-sequence pattern no earlier alternative (with what follows it) matches a proper
// prefix of what a later alternative matches.
func checkANSINoShadow(c *Ctx, r *Report, rule string) {
	co := c.LookupConst("util", "ansi")
	if co == nil {
		r.Anchor(rule, "util.ansi")
		return
	}
	pat := constant.StringVal(co.Val())
	construct := "ANSI pattern: alternatives in leftmost-first order never cut a longer sequence short"
	sh, pairs, err := regexShadows(pat)
	switch {
	case err != nil && len(sh) == 0:
		r.Unk(rule, construct, c.Pos(co.Pos()), "cannot decide: "+err.Error())
	case len(sh) > 0:
		f := sh[0]
		r.Bad(rule, construct, c.Pos(co.Pos()), fmt.Sprintf("alternative %s is tried before %s and matches a proper prefix of one of its matches (witness after the common prefix: %s): Go's regexp is leftmost-first, so only the head of such an escape sequence is removed and its tail stays in the output and in front of the prompt", f.Earlier, f.Later, f.Witness))
	default:
		r.OK(rule, construct, c.Pos(co.Pos()), fmt.Sprintf("%d ordered pair(s) of alternatives examined by NFA product, none shadows a later one", pairs))
	}
}
