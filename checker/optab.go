package main

// E7: option-table extraction for functional options (util.Option closures).

import (
	"fmt"
	"go/token"
	"go/types"
	"regexp"
	"sort"
	"strings"

	"golang.org/x/tools/go/ssa"
)

type optStore struct {
	Target string // "transport.Args"
	Field  string
	Src    string // "param0", "const:true", "append(self,param0)", "call:util.ResolveFilePath(param0)", ...
	Instr  ssa.Instruction
}

type optInfo struct {
	Name    string
	Outer   *ssa.Function
	Closure *ssa.Function
	Targets []string
	Stores  []optStore
	// analysis results
	Problems []string // O1/O2 problems
	Reads    []string // fields of the target read (other than self-append)
}

func typeShort(t types.Type) string {
	s := types.TypeString(t, func(p *types.Package) string {
		path := p.Path()
		if i := strings.LastIndex(path, "/"); i >= 0 {
			return path[i+1:]
		}
		return path
	})
	return strings.TrimPrefix(s, "*")
}

// optionFuncs lists the exported functions of a package returning util.Option.
func (c *Ctx) optionFuncs(pkgRel string) []*ssa.Function {
	sp := c.SSAPkg[modPath+"/"+pkgRel]
	optT := c.LookupType("util", "Option")
	if sp == nil || optT == nil {
		return nil
	}
	var out []*ssa.Function
	for _, m := range sp.Members {
		fn, ok := m.(*ssa.Function)
		if !ok || fn.Object() == nil || !fn.Object().Exported() {
			continue
		}
		res := fn.Signature.Results()
		if res.Len() != 1 || !types.Identical(res.At(0).Type(), optT) {
			continue
		}
		out = append(out, fn)
	}
	sort.Slice(out, func(i, j int) bool { return out[i].Name() < out[j].Name() })
	return out
}

// classifySrc describes where a stored value comes from.
func classifySrc(v ssa.Value, selfField *types.Var, depth int) string {
	if depth > 6 {
		return "other"
	}
	switch x := v.(type) {
	case *ssa.Const:
		if x.Value == nil {
			return "const:nil"
		}
		return "const:" + x.Value.ExactString()
	case *ssa.Parameter:
		for i, p := range x.Parent().Params {
			if p == x {
				return fmt.Sprintf("param%d", i)
			}
		}
	case *ssa.FreeVar:
		if b := freeVarBinding(x); b != nil {
			return classifySrc(b, selfField, depth+1)
		}
		return "freevar"
	case *ssa.Convert:
		return classifySrc(x.X, selfField, depth+1)
	case *ssa.ChangeType:
		return classifySrc(x.X, selfField, depth+1)
	case *ssa.MakeInterface:
		return classifySrc(x.X, selfField, depth+1)
	case *ssa.ChangeInterface:
		return classifySrc(x.X, selfField, depth+1)
	case *ssa.UnOp:
		if x.Op == token.MUL {
			if f, _, ok := fieldLoad(x); ok {
				if f == selfField {
					return "self"
				}
				return "field:" + f.Name()
			}
			// the element of a literal list of constants a loop ranges over: one of those constants
			if ia, ok := x.X.(*ssa.IndexAddr); ok && rangeHeader(ia.Index) != nil {
				if sl, ok := ia.X.(*ssa.Slice); ok {
					if a, ok := sl.X.(*ssa.Alloc); ok {
						var cs []string
						allConst := true
						for _, ref := range *a.Referrers() {
							if ea, ok := ref.(*ssa.IndexAddr); ok && ea != ia {
								for _, r2 := range *ea.Referrers() {
									if st, ok := r2.(*ssa.Store); ok {
										if k, ok := st.Val.(*ssa.Const); ok && k.Value != nil {
											cs = append(cs, "const:"+k.Value.ExactString())
										} else {
											allConst = false
										}
									}
								}
							}
						}
						if allConst && len(cs) > 0 {
							sort.Strings(cs)
							return "oneof:" + strings.Join(cs, "\x01")
						}
					}
				}
			}
			// load of a captured variable (closure free variable of pointer type)
			if fv, ok := x.X.(*ssa.FreeVar); ok {
				var dom []ssa.Value
				for _, ref := range *fv.Referrers() {
					if st, ok := ref.(*ssa.Store); ok && st.Addr == fv && dominatesInstr(st, x) {
						dom = append(dom, st.Val)
					}
				}
				if len(dom) == 1 {
					return classifySrc(dom[0], selfField, depth+1)
				}
				if len(dom) == 0 {
					if b := freeVarBinding(fv); b != nil {
						if a, ok := b.(*ssa.Alloc); ok {
							var stored []ssa.Value
							for _, ref := range *a.Referrers() {
								if st, ok := ref.(*ssa.Store); ok && st.Addr == a {
									stored = append(stored, st.Val)
								}
							}
							if len(stored) == 1 {
								return classifySrc(stored[0], selfField, depth+1)
							}
						}
					}
				}
				return "other"
			}
			// load of a local (alloc) — look at the unique store
			if a, ok := x.X.(*ssa.Alloc); ok {
				var stored []ssa.Value
				for _, ref := range *a.Referrers() {
					if st, ok := ref.(*ssa.Store); ok && st.Addr == a {
						stored = append(stored, st.Val)
					}
				}
				if len(stored) == 1 {
					return classifySrc(stored[0], selfField, depth+1)
				}
			}
		}
	case *ssa.Phi:
		var parts []string
		seen := map[string]bool{}
		for _, e := range x.Edges {
			s := classifySrc(e, selfField, depth+1)
			if !seen[s] {
				seen[s] = true
				parts = append(parts, s)
			}
		}
		sort.Strings(parts)
		return "phi(" + strings.Join(parts, "|") + ")"
	case *ssa.Extract:
		if call, ok := x.Tuple.(*ssa.Call); ok {
			return fmt.Sprintf("%s#%d", classifyCall(call, selfField, depth), x.Index)
		}
	case *ssa.Call:
		return classifyCall(x, selfField, depth)
	case *ssa.MakeClosure, *ssa.Function:
		return "func"
	case *ssa.Slice:
		// varargs packing: new [n]T; stores into elements; slice
		if a, ok := x.X.(*ssa.Alloc); ok {
			var parts []string
			for _, ref := range *a.Referrers() {
				if ia, ok := ref.(*ssa.IndexAddr); ok {
					for _, r2 := range *ia.Referrers() {
						if st, ok := r2.(*ssa.Store); ok {
							parts = append(parts, classifySrc(st.Val, selfField, depth+1))
						}
					}
				}
			}
			sort.Strings(parts)
			if len(parts) > 0 {
				return strings.Join(parts, ",")
			}
		}
	}
	return "other"
}

func classifyCall(call *ssa.Call, selfField *types.Var, depth int) string {
	if b, ok := call.Call.Value.(*ssa.Builtin); ok {
		var parts []string
		for _, a := range call.Call.Args {
			parts = append(parts, classifySrc(a, selfField, depth+1))
		}
		return b.Name() + "(" + strings.Join(parts, ",") + ")"
	}
	name := "dyn"
	if o := CalleeObj(call); o != nil {
		name = o.Name()
		if o.Pkg() != nil {
			name = o.Pkg().Name() + "." + o.Name()
		}
	}
	var parts []string
	for _, a := range call.Call.Args {
		parts = append(parts, classifySrc(a, selfField, depth+1))
	}
	return "call:" + name + "(" + strings.Join(parts, ",") + ")"
}

// analyseOption extracts the table row of one option constructor.
func (c *Ctx) analyseOption(fn *ssa.Function) *optInfo {
	oi := &optInfo{Name: fn.Name(), Outer: fn}
	// the returned closure
	var clos *ssa.Function
	allInstrs(fn, func(in ssa.Instruction) {
		if ret, ok := in.(*ssa.Return); ok && len(ret.Results) == 1 {
			v := ret.Results[0]
			if ct, ok := v.(*ssa.ChangeType); ok {
				v = ct.X
			}
			switch x := v.(type) {
			case *ssa.MakeClosure:
				clos, _ = x.Fn.(*ssa.Function)
			case *ssa.Function:
				clos = x
			}
		}
	})
	// combinator spelling: return wrap(func(t *T) { t.Field = v }) where wrap builds the closure that asserts the type,
	// ignores everything else, runs the setter on the asserted value and reports success
	var setter *ssa.Function
	var setterCall ssa.Instruction
	if clos == nil {
		clos, setter, setterCall = c.optionCombinator(fn)
	}
	if clos == nil || len(clos.Params) != 1 {
		oi.Problems = append(oi.Problems, "O2: cannot find the option closure returned by "+fn.Name())
		return oi
	}
	oi.Closure = clos
	o := clos.Params[0]
	ignored := c.LookupVar("util", "ErrIgnoredOption")
	badOpt := c.LookupVar("util", "ErrBadOption")
	fileNF := c.LookupVar("util", "ErrFileNotFoundError")

	// asserted values
	asserted := map[ssa.Value]types.Type{}
	allInstrs(clos, func(in ssa.Instruction) {
		ta, ok := in.(*ssa.TypeAssert)
		if !ok || ta.X != o {
			return
		}
		if ta.CommaOk {
			for _, ref := range *ta.Referrers() {
				if e, ok := ref.(*ssa.Extract); ok && e.Index == 0 {
					asserted[e] = ta.AssertedType
				}
			}
		} else {
			asserted[ta] = ta.AssertedType
		}
		ts := typeShort(ta.AssertedType)
		dup := false
		for _, t := range oi.Targets {
			if t == ts {
				dup = true
			}
		}
		if !dup {
			oi.Targets = append(oi.Targets, ts)
		}
	})
	sort.Strings(oi.Targets)
	// where the stores are looked for: the closure itself, or the setter it runs on the asserted value
	body := clos
	if setter != nil {
		body = setter
		if sc, ok := setterCall.(*ssa.Call); ok && len(sc.Call.Args) == 1 {
			if t, ok := asserted[sc.Call.Args[0]]; ok && len(setter.Params) == 1 {
				asserted[setter.Params[0]] = t
			} else {
				oi.Problems = append(oi.Problems, "O2: the setter is not run on the asserted option target")
			}
		}
	}
	if len(asserted) == 0 {
		oi.Problems = append(oi.Problems, "O2: option closure never type-asserts its argument")
	}
	// stores
	var storeInstrs []ssa.Instruction
	allInstrs(body, func(in ssa.Instruction) {
		st, ok := in.(*ssa.Store)
		if !ok {
			return
		}
		switch a := st.Addr.(type) {
		case *ssa.FieldAddr:
			base := a.X
			if t, ok := asserted[base]; ok {
				f := fieldOfAddr(a)
				oi.Stores = append(oi.Stores, optStore{Target: typeShort(t), Field: f.Name(), Src: classifySrc(st.Val, f, 0), Instr: st})
				storeInstrs = append(storeInstrs, st)
				return
			}
			oi.Problems = append(oi.Problems, fmt.Sprintf("O2: store to field %s of a value that is not the asserted option target (%s)", fieldOfAddr(a).Name(), c.Pos(st.Pos())))
		case *ssa.Alloc, *ssa.FreeVar:
			// local (possibly captured) variable
		case *ssa.Global:
			oi.Problems = append(oi.Problems, fmt.Sprintf("O2: store to package variable %s (%s)", a.Name(), c.Pos(st.Pos())))
		case *ssa.IndexAddr:
			// writing into an element: allowed only for fresh local arrays (varargs packing)
			if _, ok := a.X.(*ssa.Alloc); !ok {
				oi.Problems = append(oi.Problems, fmt.Sprintf("O2: element store outside the option target (%s)", c.Pos(st.Pos())))
			}
		default:
			oi.Problems = append(oi.Problems, fmt.Sprintf("O2: store through %T outside the option target (%s)", st.Addr, c.Pos(st.Pos())))
		}
	})
	// reads of target fields (order independence)
	allInstrs(body, func(in ssa.Instruction) {
		if u, ok := in.(*ssa.UnOp); ok && u.Op == token.MUL {
			if fa, ok := u.X.(*ssa.FieldAddr); ok {
				if _, ok := asserted[fa.X]; ok {
					oi.Reads = append(oi.Reads, fieldOfAddr(fa).Name())
				}
			}
		}
	})
	// returns
	isStore := func(in ssa.Instruction) bool {
		for _, s := range storeInstrs {
			if s == in {
				return true
			}
		}
		return false
	}
	// every setting the option stores is stored on every success path that stores any of them: a second field that is
	// only assigned under a condition on the value (e.g. "only when non-empty") keeps what an earlier option left
	// there -- the later option does not win for that field
	for _, s1 := range storeInstrs {
		st1, ok := s1.(*ssa.Store)
		if !ok {
			continue
		}
		fa1, ok := st1.Addr.(*ssa.FieldAddr)
		if !ok {
			continue
		}
		for _, s2 := range storeInstrs {
			st2, ok := s2.(*ssa.Store)
			if !ok || s2 == s1 {
				continue
			}
			fa2, ok := st2.Addr.(*ssa.FieldAddr)
			if !ok || fa2.X != fa1.X || fa2.Field == fa1.Field {
				continue
			}
			isF2 := func(in ssa.Instruction) bool {
				if st, ok := in.(*ssa.Store); ok {
					if fa, ok := st.Addr.(*ssa.FieldAddr); ok && fa.X == fa2.X && fa.Field == fa2.Field {
						return true
					}
				}
				return false
			}
			if dominatesInstr(s2, s1) {
				continue // F2 already stored before F1 on this path
			}
			if setter != nil {
				// a setter has no result: every return is a success path
				rr := reachFrom(body, s1, isF2, nil)
				for in := range rr.visited {
					if isReturn(in) {
						oi.Problems = append(oi.Problems, fmt.Sprintf("O1: a success path stores %s but not %s (%s): for that field an earlier option's value survives, the later option does not win", oi.storeName(s1), oi.storeName(s2), c.Pos(in.Pos())))
					}
				}
				continue
			}
			rr := reachFrom(clos, s1, isF2, nil)
			for in := range rr.visited {
				ret, ok := in.(*ssa.Return)
				if !ok || len(ret.Results) != 1 {
					continue
				}
				for _, cl := range returnErrClasses(ret.Results[0], 0) {
					if cl.isNil && retEdgeReachable(rr, in, ret.Results[0], cl) {
						msg := fmt.Sprintf("O1: a success path stores %s but not %s (%s): for that field an earlier option's value survives, the later option does not win", oi.storeName(s1), oi.storeName(s2), c.Pos(ret.Pos()))
						dup := false
						for _, p := range oi.Problems {
							if p == msg {
								dup = true
							}
						}
						if !dup {
							oi.Problems = append(oi.Problems, msg)
						}
					}
				}
			}
		}
	}
	if setter != nil {
		// the setter stores on each of its paths; in the wrapping closure "the store" is the setter's call
		rs := reachFrom(setter, nil, isStore, nil)
		for in := range rs.visited {
			if isReturn(in) {
				oi.Problems = append(oi.Problems, fmt.Sprintf("O1: a path of the setter returns without storing the setting (%s)", c.Pos(in.Pos())))
			}
		}
		storeInstrs = []ssa.Instruction{setterCall}
	}
	noStore := reachFrom(clos, nil, isStore, nil) // instructions reachable from entry without passing a target store
	allInstrs(clos, func(in ssa.Instruction) {
		ret, ok := in.(*ssa.Return)
		if !ok || len(ret.Results) != 1 {
			return
		}
		classes := returnErrClasses(ret.Results[0], 0)
		for _, cl := range classes {
			switch {
			case cl.isNil:
				if noStore.visited[in] && retEdgeReachable(noStore, in, ret.Results[0], cl) {
					oi.Problems = append(oi.Problems, fmt.Sprintf("O1: a path returns success without storing the setting (%s)", c.Pos(ret.Pos())))
				}
			case cl.global != nil && ignored != nil && cl.global.Object() == ignored:
				// must not be reachable after a store
				for _, s := range storeInstrs {
					rr := reachFrom(clos, s, nil, nil)
					if rr.visited[in] && retEdgeReachable(rr, in, ret.Results[0], cl) {
						oi.Problems = append(oi.Problems, fmt.Sprintf("O1: returns the ignored sentinel after storing %s: constructors treat the option as not applied (%s)", oi.storeName(s), c.Pos(ret.Pos())))
					}
				}
			case cl.global != nil && fileNF != nil && cl.global.Object() == fileNF:
				// named exception: file-resolution failures
			case cl.wraps != nil && badOpt != nil && cl.wraps.Object() == badOpt:
			case cl.global != nil && badOpt != nil && cl.global.Object() == badOpt:
			case cl.fromCall:
				// propagated error of a callee (e.g. logging.NewInstance)
			default:
				oi.Problems = append(oi.Problems, fmt.Sprintf("O1: returns an error that is neither the ignored sentinel nor a bad-option error (%s)", c.Pos(ret.Pos())))
			}
		}
	})
	return oi
}

// optionCombinator: fn returns wrap(setter) where wrap (same package) returns a closure that runs its function
// parameter; returns that closure, the setter literal and the call that runs it.
func (c *Ctx) optionCombinator(fn *ssa.Function) (*ssa.Function, *ssa.Function, ssa.Instruction) {
	var wrapCall *ssa.Call
	allInstrs(fn, func(in ssa.Instruction) {
		if ret, ok := in.(*ssa.Return); ok && len(ret.Results) == 1 {
			v := ret.Results[0]
			if ct, ok := v.(*ssa.ChangeType); ok {
				v = ct.X
			}
			if call, ok := v.(*ssa.Call); ok {
				wrapCall = call
			}
		}
	})
	if wrapCall == nil {
		return nil, nil, nil
	}
	wrap := wrapCall.Call.StaticCallee()
	if wrap == nil || wrap.Pkg != fn.Pkg || len(wrap.Blocks) == 0 || len(wrapCall.Call.Args) != 1 || len(wrap.Params) != 1 {
		return nil, nil, nil
	}
	var setter *ssa.Function
	switch a := wrapCall.Call.Args[0].(type) {
	case *ssa.MakeClosure:
		setter, _ = a.Fn.(*ssa.Function)
	case *ssa.Function: // a function literal that captures nothing
		setter = a
	default:
		return nil, nil, nil
	}
	// the closure wrap returns
	var clos *ssa.Function
	allInstrs(wrap, func(in ssa.Instruction) {
		if ret, ok := in.(*ssa.Return); ok && len(ret.Results) == 1 {
			v := ret.Results[0]
			if ct, ok := v.(*ssa.ChangeType); ok {
				v = ct.X
			}
			if m, ok := v.(*ssa.MakeClosure); ok {
				clos, _ = m.Fn.(*ssa.Function)
			}
		}
	})
	if clos == nil || setter == nil {
		return nil, nil, nil
	}
	// the call of the captured function parameter
	var run ssa.Instruction
	n := 0
	for _, ci := range callInstrs(clos) {
		v := ci.Common().Value
		if u, ok := v.(*ssa.UnOp); ok && u.Op == token.MUL {
			v = u.X
		}
		fv, ok := v.(*ssa.FreeVar)
		if !ok {
			continue
		}
		b := freeVarBinding(fv)
		if b == ssa.Value(wrap.Params[0]) {
			run = ci
			n++
			continue
		}
		if a, ok := b.(*ssa.Alloc); ok {
			for _, ref := range *a.Referrers() {
				if st, ok := ref.(*ssa.Store); ok && st.Val == ssa.Value(wrap.Params[0]) {
					run = ci
					n++
				}
			}
		}
	}
	if n != 1 {
		return nil, nil, nil
	}
	return clos, setter, run
}

func (oi *optInfo) storeName(in ssa.Instruction) string {
	for _, s := range oi.Stores {
		if s.Instr == in {
			return s.Target + "." + s.Field
		}
	}
	return "?"
}

type errClass struct {
	isNil    bool
	global   *ssa.Global // returns the value of this package-level error
	wraps    *ssa.Global // fmt.Errorf("%w...", global)
	fromCall bool
	edge     int // phi edge index or -1
	phi      *ssa.Phi
}

// returnErrClasses classifies the possible values of a returned error.
func returnErrClasses(v ssa.Value, depth int) []errClass {
	if depth > 4 {
		return []errClass{{}}
	}
	switch x := v.(type) {
	case *ssa.Const:
		if x.Value == nil {
			return []errClass{{isNil: true, edge: -1}}
		}
	case *ssa.UnOp:
		if x.Op == token.MUL {
			if g, ok := x.X.(*ssa.Global); ok {
				return []errClass{{global: g, edge: -1}}
			}
			// defer-spilled result: load of the result cell; use the store that precedes it in the block
			if a, ok := x.X.(*ssa.Alloc); ok {
				if v := lastStoreBefore(a, x); v != nil {
					return returnErrClasses(v, depth+1)
				}
				var out []errClass
				for _, ref := range *a.Referrers() {
					if st, ok := ref.(*ssa.Store); ok && st.Addr == a {
						out = append(out, returnErrClasses(st.Val, depth+1)...)
					}
				}
				if len(out) > 0 {
					return out
				}
			}
		}
	case *ssa.Phi:
		var out []errClass
		for i, e := range x.Edges {
			for _, cl := range returnErrClasses(e, depth+1) {
				if cl.phi == nil {
					cl.phi = x
					cl.edge = i
				}
				out = append(out, cl)
			}
		}
		return out
	case *ssa.Call:
		if o := CalleeObj(x); o != nil && o.Pkg() != nil && o.Pkg().Path() == "fmt" && o.Name() == "Errorf" {
			if g := errorfWraps(x); g != nil {
				return []errClass{{wraps: g, edge: -1}}
			}
			return []errClass{{edge: -1}}
		}
		// a small helper of the library that only builds an error: classify what it returns
		if sc := x.Call.StaticCallee(); sc != nil && sc.Pkg != nil && isLibPkgPath(sc.Pkg.Pkg.Path()) && sc.Blocks != nil && len(sc.Blocks) <= 2 {
			if res := sc.Signature.Results(); res.Len() == 1 && isErrorType(res.At(0).Type()) {
				var out []errClass
				for _, b := range sc.Blocks {
					for _, in := range b.Instrs {
						if ret, ok := in.(*ssa.Return); ok && len(ret.Results) == 1 {
							for _, cl := range returnErrClasses(ret.Results[0], depth+1) {
								cl.phi, cl.edge = nil, -1
								out = append(out, cl)
							}
						}
					}
				}
				if len(out) > 0 {
					return out
				}
			}
		}
		return []errClass{{fromCall: true, edge: -1}}
	case *ssa.Extract:
		return []errClass{{fromCall: true, edge: -1}}
	case *ssa.MakeInterface:
		return returnErrClasses(x.X, depth+1)
	}
	return []errClass{{edge: -1}}
}

// errorfWraps returns the package-level error that a fmt.Errorf call formats under a %w verb (the class the
// resulting error belongs to for errors.Is); operands are paired with their verbs, so a sentinel that is only printed
// (%s / %v) while another error is wrapped does not count.
func errorfWraps(call *ssa.Call) *ssa.Global {
	args := call.Call.Args
	if len(args) < 2 {
		return nil
	}
	if o := CalleeObj(call); o == nil || o.Pkg() == nil || o.Pkg().Path() != "fmt" || o.Name() != "Errorf" {
		return nil
	}
	f, ok := constString(args[0])
	if !ok || !strings.Contains(f, "%w") {
		return nil
	}
	vals := varargValues(args[1])
	verbs := formatVerbs(f)
	if vals == nil {
		return nil
	}
	asGlobal := func(v ssa.Value) *ssa.Global {
		if v == nil {
			return nil
		}
		v = stripValue(v)
		if u, ok := v.(*ssa.UnOp); ok && u.Op == token.MUL {
			if g, ok := u.X.(*ssa.Global); ok {
				return g
			}
		}
		return nil
	}
	if verbs == nil {
		// explicit argument indexes: fall back to the first operand
		if len(vals) > 0 {
			return asGlobal(vals[0])
		}
		return nil
	}
	for i, v := range vals {
		if i < len(verbs) && verbs[i] == 'w' {
			if g := asGlobal(v); g != nil {
				return g
			}
		}
	}
	return nil
}

// retEdgeReachable refines reachability of a return for phi-merged results: the
// class cl arrives through phi edge cl.edge; it is feasible only if the
// predecessor block of that edge was visited.
func retEdgeReachable(rr *reachResult, ret ssa.Instruction, v ssa.Value, cl errClass) bool {
	if cl.phi == nil {
		return true
	}
	pred := cl.phi.Block().Preds[cl.edge]
	if len(pred.Instrs) == 0 {
		return true
	}
	return rr.visited[pred.Instrs[len(pred.Instrs)-1]]
}

// expectedOpt is a row of a specification table.
type expectedOpt struct {
	Stores []string // "transport.Args.User<-param0"
}

func (oi *optInfo) storeStrings() []string {
	var out []string
	seen := map[string]bool{}
	for _, s := range oi.Stores {
		// a source that is one of several constants (a loop over a literal candidate list) stands for one store each
		srcs := []string{s.Src}
		if i := strings.Index(s.Src, "oneof:"); i >= 0 {
			j := i + len("oneof:")
			end := j
			for end < len(s.Src) && s.Src[end] != ')' && s.Src[end] != ',' {
				end++
			}
			srcs = nil
			for _, alt := range strings.Split(s.Src[j:end], "\x01") {
				srcs = append(srcs, s.Src[:i]+alt+s.Src[end:])
			}
		}
		for _, src := range srcs {
			x := s.Target + "." + s.Field + "<-" + src
			if !seen[x] {
				seen[x] = true
				out = append(out, x)
			}
		}
	}
	sort.Strings(out)
	return out
}

// checkOptionTable runs O1/O2/O3 over the option constructors of pkgRel against spec.
// Options absent from spec are reported in notes (not violations).
func checkOptionTable(c *Ctx, r *Report, prefix, pkgRel string, spec map[string][]string, only map[string]bool) map[string]*optInfo {
	infos := map[string]*optInfo{}
	fns := c.optionFuncs(pkgRel)
	if len(fns) == 0 {
		r.Anchor(prefix+"/O3", "option constructors of package "+pkgRel)
		return infos
	}
	byField := map[string][]string{}
	for _, fn := range fns {
		if only != nil && !only[fn.Name()] {
			continue
		}
		oi := c.analyseOption(fn)
		infos[fn.Name()] = oi
		construct := pkgRel + "." + fn.Name()
		pos := c.Pos(fn.Pos())
		if len(oi.Problems) > 0 {
			r.Bad(prefix+"/O1O2", construct, pos, strings.Join(oi.Problems, "; "))
		} else {
			r.OK(prefix+"/O1O2", construct, pos, "targets "+strings.Join(oi.Targets, ","))
		}
		got := oi.storeStrings()
		for _, s := range oi.Stores {
			k := s.Target + "." + s.Field
			byField[k] = append(byField[k], fn.Name())
		}
		want, known := spec[fn.Name()]
		if !known {
			r.Notes = append(r.Notes, fmt.Sprintf("%s: option %s is not in the specification table (stores %v); O1/O2 checked only", prefix, construct, got))
			continue
		}
		w := append([]string{}, want...)
		sort.Strings(w)
		if strings.Join(w, " ") == strings.Join(got, " ") {
			r.OK(prefix+"/O3", construct, pos, strings.Join(got, " "))
		} else if why := c.sameStoresThroughHelper(fn, w, got); why != "" {
			r.OK(prefix+"/O3", construct, pos, strings.Join(got, " ")+" ("+why+")")
		} else {
			r.Bad(prefix+"/O3", construct, pos, fmt.Sprintf("option stores %v but the setting it names is %v", got, w))
		}
		// order independence: may read only the field it appends to
		for _, rd := range oi.Reads {
			self := false
			for _, s := range oi.Stores {
				if s.Field == rd && strings.Contains(s.Src, "self") {
					self = true
				}
			}
			if !self {
				r.Bad(prefix+"/O5", construct+" reads "+rd, pos, fmt.Sprintf("option reads setting %s of its target: its effect depends on its position in the option list", rd))
			}
		}
	}
	if only != nil {
		for name := range only {
			if infos[name] == nil {
				r.Anchor(prefix+"/O3", pkgRel+"."+name)
			}
		}
	} else {
		for name := range spec {
			if infos[name] == nil {
				r.Anchor(prefix+"/O3", pkgRel+"."+name)
			}
		}
	}
	return infos
}

var (
	optLeafRe = regexp.MustCompile(`const:"(?:[^"\\]|\\.)*"|const:[^,()]+|param\d+|self\w*`)
	optCallRe = regexp.MustCompile(`call:([\w./]+)\(`)
)

// sameStoresThroughHelper: the option stores the same fields from the same constants / parameters as specified, and
// every function the specification routes a value through is still called -- directly or inside an unexported helper
// of the option's package that the value now goes through (e.g. two ResolveFilePath attempts folded into one
// resolveFirst(paths...) helper). Returns a description, or "" when the stores differ.
func (c *Ctx) sameStoresThroughHelper(fn *ssa.Function, want, got []string) string {
	type agg struct {
		leaves map[string]bool
		calls  map[string]bool
	}
	collect := func(list []string) map[string]*agg {
		m := map[string]*agg{}
		for _, s := range list {
			parts := strings.SplitN(s, "<-", 2)
			if len(parts) != 2 {
				continue
			}
			a := m[parts[0]]
			if a == nil {
				a = &agg{leaves: map[string]bool{}, calls: map[string]bool{}}
				m[parts[0]] = a
			}
			for _, l := range optLeafRe.FindAllString(parts[1], -1) {
				a.leaves[l] = true
			}
			for _, cm := range optCallRe.FindAllStringSubmatch(parts[1], -1) {
				a.calls[cm[1]] = true
			}
		}
		return m
	}
	w, g := collect(want), collect(got)
	if len(w) != len(g) {
		return ""
	}
	var helpers []string
	for field, wa := range w {
		ga := g[field]
		if ga == nil || len(wa.leaves) != len(ga.leaves) {
			return ""
		}
		for l := range wa.leaves {
			if !ga.leaves[l] {
				return ""
			}
		}
		// functions reachable through the helpers named in the actual source
		reach := map[string]bool{}
		for name := range ga.calls {
			reach[name] = true
			dot := strings.LastIndex(name, ".")
			if dot < 0 {
				continue
			}
			for _, h := range c.LibFns {
				if h.Pkg != fn.Pkg || h.Name() != name[dot+1:] || h.Object() == nil || h.Object().Exported() {
					continue
				}
				helpers = append(helpers, name)
				for _, ci := range callInstrs(h) {
					if o := CalleeObj(ci); o != nil && o.Pkg() != nil {
						reach[o.Pkg().Name()+"."+o.Name()] = true
					}
				}
			}
		}
		for name := range wa.calls {
			if !reach[name] {
				return ""
			}
		}
	}
	if len(helpers) == 0 {
		return ""
	}
	sort.Strings(helpers)
	return "same sources through helper " + strings.Join(uniqStrings(helpers), ", ")
}

// lastStoreBefore returns the value most recently stored to cell a before instruction at, within at's block.
func lastStoreBefore(a *ssa.Alloc, at ssa.Instruction) ssa.Value {
	b := at.Block()
	var last ssa.Value
	for _, in := range b.Instrs {
		if in == at {
			break
		}
		if st, ok := in.(*ssa.Store); ok && st.Addr == ssa.Value(a) {
			last = st.Val
		}
	}
	return last
}
