#!/usr/bin/env python3
"""Run every check (quick tier) against every seeded change and write seeded/INDEX.md.

For each /verif/seeded/<id>/patch.diff: git -C /repo apply, run the 20 checks in parallel with a private
evidence directory, git -C /repo checkout -- . straight afterwards. meta.json is updated with the rules that
report. Never run while another process modifies /repo.
"""
import json, os, shutil, subprocess, sys, tempfile, concurrent.futures, re

ENV = dict(os.environ, GOFLAGS="-mod=mod", GOPROXY="off", GOSUMDB="off", GOTOOLCHAIN="local")
ENV.pop("GOWORK", None)

def sh(cmd, timeout=900):
    p = subprocess.run(cmd, shell=True, env=ENV, capture_output=True, text=True, timeout=timeout)
    return p.returncode, p.stdout + p.stderr

def run_checks(repo="/repo", workers=10):
    props = ["C%02d" % k for k in range(1, 21)]
    def runp(p):
        vd = tempfile.mkdtemp(prefix="seedchk-")
        os.makedirs(os.path.join(vd, "evidence"))
        shutil.copy("/verif/known_findings.txt", vd)
        r, o = sh(f"/verif/bin/scrapcheck -prop {p} -tier quick -repo {repo} -verif {vd}", timeout=300)
        shutil.rmtree(vd, ignore_errors=True)
        lines = [l for l in o.splitlines() if ": violated:" in l or ": undecided:" in l]
        rules = sorted({l.split("[")[-1].split(" @ ")[0] for l in lines if "[" in l})
        return p, r, rules, (lines[0][:300] if lines else "")
    out = {}
    with concurrent.futures.ThreadPoolExecutor(max_workers=workers) as ex:
        for p, r, rules, first in ex.map(runp, props):
            if r != 0:
                out[p] = {"exit": r, "rules": rules, "first_report": first}
    return out

def run_matrix(repo):
    """One process for the whole row: scrapcheck -matrix loads the tree once and evaluates every property."""
    r, o = sh(f"/verif/bin/scrapcheck -matrix -repo {repo} -verif /verif", timeout=600)
    if "MATRIX done" not in o:
        return {"error": "matrix run failed: " + o[-300:]}
    out = {}
    for l in o.splitlines():
        if not l.startswith("MATRIX C"):
            continue
        _, p, rest = l.split(" ", 2)
        if ": violated:" not in rest and ": undecided:" not in rest:
            continue
        rule = rest.split("[")[-1].split(" @ ")[0] if "[" in rest else ""
        e = out.setdefault(p, {"exit": 1, "rules": [], "first_report": rest[:300].replace(repo + "/", "")})
        if rule and rule not in e["rules"]:
            e["rules"].append(rule)
    for e in out.values():
        e["rules"].sort()
    return out

def fast_one(seed):
    """--fast: the same matrix cell computed on a scratch worktree of /repo HEAD with the patch applied (several at a time)."""
    d = os.path.join("/verif/seeded", seed)
    wt = tempfile.mkdtemp(prefix="seedwt-"); os.rmdir(wt)
    rc, out = sh(f"git -C /repo worktree add --detach {wt} HEAD")
    assert rc == 0, out
    try:
        rc, out = sh(f"cd {wt} && git apply {d}/patch.diff")
        if rc != 0:
            return seed, {"error": "patch does not apply: " + out[-200:]}
        return seed, run_matrix(wt)
    finally:
        sh(f"git -C /repo worktree remove --force {wt}")

def main():
    fast = "--fast" in sys.argv
    only = [a for a in sys.argv[1:] if a != "--fast"]
    precomputed = {}
    if fast:
        seeds = [s for s in sorted(os.listdir("/verif/seeded")) if s != "retired" and os.path.isfile(os.path.join("/verif/seeded", s, "patch.diff")) and (not only or s in only)]
        with concurrent.futures.ThreadPoolExecutor(max_workers=8) as ex:
            for seed, res in ex.map(fast_one, seeds):
                precomputed[seed] = res
                print(seed, {k: v.get("rules") for k, v in res.items() if isinstance(v, dict)}, flush=True)
    rc, out = sh("git -C /repo status --porcelain")
    assert out.strip() == "", "/repo not clean"
    rc, out = sh("cd /verif && ./run.sh --build-only 2>/dev/null; true")
    base = run_checks()
    if base:
        print("CLEAN TREE REPORTS:", base); sys.exit(1)
    rows = []
    for seed in sorted(os.listdir("/verif/seeded")):
        d = os.path.join("/verif/seeded", seed)
        if seed == "retired" or not os.path.isfile(os.path.join(d, "patch.diff")):
            continue
        mp = os.path.join(d, "meta.json")
        meta = json.load(open(mp))
        if seed in precomputed:
            meta["checks_reporting"] = precomputed[seed]
            prop = meta["property"]
            meta["detected_by_own_property_check"] = prop in meta["checks_reporting"]
            meta["detected_by_any_check"] = len(meta["checks_reporting"]) > 0 and "error" not in meta["checks_reporting"]
            json.dump(meta, open(mp, "w"), indent=1)
        elif not fast and (not only or seed in only):
            rc, out = sh(f"git -C /repo apply {d}/patch.diff")
            try:
                if rc != 0:
                    meta["checks_reporting"] = {"error": "patch does not apply: " + out[-200:]}
                else:
                    meta["checks_reporting"] = run_checks()
            finally:
                sh("git -C /repo checkout -- . && git -C /repo clean -fdq")
            prop = meta["property"]
            meta["detected_by_own_property_check"] = prop in meta["checks_reporting"]
            meta["detected_by_any_check"] = len(meta["checks_reporting"]) > 0 and "error" not in meta["checks_reporting"]
            json.dump(meta, open(mp, "w"), indent=1)
        rows.append((seed, meta))
        if not fast:
            print(seed, {k: v.get("rules") for k, v in meta["checks_reporting"].items() if isinstance(v, dict)}, flush=True)
    with open("/verif/seeded/INDEX.md", "w") as f:
        f.write("# Independently seeded breaking changes\n\n")
        f.write("Each directory holds `patch.diff` (apply with `git -C /repo apply`), the demonstration test (`demo_test.go`, copied into the package named in `meta.json`), the author's `notes.md` and `meta.json` (what was run to confirm it, which checks report it). ")
        f.write("All changes compile, pass the unedited 303-test suite and make their demonstration fail; the demonstration passes on the unmodified tree. Produced by fresh sub-agents that saw only the property text.\n\n")
        fp = json.load(open("/verif/seeded/first_pass.json")) if os.path.exists("/verif/seeded/first_pass.json") else {}
        f.write("`first pass` is what the checks reported when the change was first validated, i.e. before any check was strengthened because of it (`-` = nothing): the honest measure of how the machinery generalises to changes it has not seen. `reported by` is the current state.\n\n")
        f.write("| change | property | what it breaks (needs) | first pass | reported by |\n|---|---|---|---|---|\n")
        for seed, meta in rows:
            title = ""
            np = os.path.join("/verif/seeded", seed, "notes.md")
            if os.path.exists(np):
                for l in open(np):
                    l = l.strip()
                    if l.startswith("#"):
                        title = l.lstrip("# ").strip(); break
            rep = "; ".join(f"{k}: {', '.join(v['rules'])}" for k, v in meta["checks_reporting"].items() if isinstance(v, dict) and "rules" in v) or "**none**"
            own = "" if meta.get("detected_by_own_property_check") else " (own property's check silent)"
            first = fp.get(seed, {}).get("reporting")
            firsts = "?" if first is None else ("; ".join(f"{k}: {', '.join(v)}" for k, v in first.items()) or "-")
            f.write(f"| {seed} | {meta['property']} | {title} | {firsts} | {rep}{own} |\n")
    if os.path.exists("/verif/seeded/first_pass.json"):
        fp = json.load(open("/verif/seeded/first_pass.json"))
        with open("/verif/seeded/INDEX.md", "a") as f:
            for tag, name in (("", "round 1"), ("-r2", "round 2"), ("-r3", "round 3"), ("-r4", "round 4 (not steered away from earlier changes)"), ("-r5", "round 5"), ("-r6", "round 6"), ("-r7", "round 7 (steered as round 6)"), ("-r8", "round 8 (steered as round 6)"), ("-r9", "round 9 (authors not told about earlier changes)"), ("-r10", "round 10 (steered as round 6)"), ("-r11", "round 11 (steered as round 6)"), ("-r12", "round 12 (steered as round 6)"), ("-r13", "round 13 (authors not told about earlier changes)")):
                ks = [k for k in fp if (("-r" not in k) if tag == "" else (tag in k))]
                if ks:
                    f.write(f"\n{name}: {len(ks)} changes, first pass reported {sum(1 for k in ks if fp[k]['reporting'])} ({sum(1 for k in ks if fp[k]['own'])} by the change's own property check).")
            f.write("\n")
    det = sum(1 for _, m in rows if m.get("detected_by_any_check"))
    own = sum(1 for _, m in rows if m.get("detected_by_own_property_check"))
    print(f"{len(rows)} changes, {det} reported by some check, {own} by their own property's check")

main()
