# NA_REASON[id] = reason for properties not claimed
