#!/usr/bin/env python3
"""Re-confirm kept seeded changes against the current /repo HEAD (after fix commits or rebased patches).

usage: revalidate_seeded.py [--suite] <seed-id>...   (no ids = all)
For each: scratch worktree of /repo HEAD; demo passes clean; patch applies; builds; demo fails with the patch;
with --suite also the unedited suite passes with the patch. Updates meta.json["revalidated"]. Worktree removed.
"""
import json, os, shutil, subprocess, sys, tempfile, glob, re

ENV = dict(os.environ, GOFLAGS="-mod=mod", GOPROXY="off", GOSUMDB="off", GOTOOLCHAIN="local")
ENV.pop("GOWORK", None)

def sh(cmd, cwd=None, timeout=1500):
    p = subprocess.run(cmd, shell=True, cwd=cwd, env=ENV, capture_output=True, text=True, timeout=timeout)
    return p.returncode, p.stdout + p.stderr

def main():
    args = sys.argv[1:]
    suite = "--suite" in args
    ids = [a for a in args if not a.startswith("--")] or sorted(d for d in os.listdir("/verif/seeded") if os.path.isfile(f"/verif/seeded/{d}/patch.diff"))
    head = sh("git -C /repo log --format=%h -1")[1].strip()
    bad = 0
    for seed in ids:
        d = f"/verif/seeded/{seed}"
        meta = json.load(open(d + "/meta.json"))
        pkgdir = meta["demo_package_dir"]
        run = None
        for l in meta.get("ran", []):
            m = re.search(r"-run '([^']+)'", l)
            if m:
                run = m.group(1)
        wt = tempfile.mkdtemp(prefix="reval-"); os.rmdir(wt)
        rc, out = sh(f"git -C /repo worktree add --detach {wt} HEAD")
        res = {"head": head}
        try:
            os.makedirs(os.path.join(wt, pkgdir), exist_ok=True)
            demos = [f for f in glob.glob(d + "/*_test.go")]
            for f in demos:
                shutil.copy(f, os.path.join(wt, pkgdir, "zz_" + os.path.basename(f)))
            cmd = f"go test -count=1 -timeout 300s -run '{run or '.'}' ./{pkgdir}/"
            rc, out = sh(cmd, cwd=wt); res["demo_clean"] = "pass" if rc == 0 else "FAIL"
            rc, out = sh(f"git apply {d}/patch.diff", cwd=wt); res["applies"] = rc == 0
            rc, out = sh("go build ./...", cwd=wt); res["builds"] = rc == 0
            rc, out = sh(cmd, cwd=wt); res["demo_with_change"] = "fail" if rc != 0 else "PASS(!)"
            if suite:
                for f in demos:
                    os.remove(os.path.join(wt, pkgdir, "zz_" + os.path.basename(f)))
                rc, out = sh("go test -vet=off -count=1 -timeout 20m $(go list ./... | grep -v /transport$) && flock /tmp/scrapligo-transport.lock go test -vet=off -count=1 ./transport/", cwd=wt)
                res["suite_with_change"] = "pass" if rc == 0 else "FAIL"
        finally:
            sh(f"git -C /repo worktree remove --force {wt}")
        ok = res.get("demo_clean") == "pass" and res.get("applies") and res.get("builds") and res.get("demo_with_change") == "fail" and res.get("suite_with_change", "pass") == "pass"
        res["ok"] = bool(ok)
        meta["revalidated"] = res
        json.dump(meta, open(d + "/meta.json", "w"), indent=1)
        print(seed, "OK" if ok else "NOT-OK", res, flush=True)
        bad += 0 if ok else 1
    sys.exit(1 if bad else 0)

main()
