#!/usr/bin/env python3
"""Generates /verif/MANIFEST.json from the table below (kept valid at all times).
Run: python3 tools/manifest.py   (validates against /root/.vp/MANIFEST.schema.json when jsonschema is available)
"""
import json, os, sys

HERE = os.path.dirname(os.path.dirname(os.path.abspath(__file__)))

# property id -> (text, note, technique, design_ref)
CLAIMED = {}

def claim(pid, text, note, technique, ref):
    CLAIMED[pid] = (text, note, technique, ref)

exec(open(os.path.join(HERE, "tools", "claims.py")).read())

ALL = [json.loads(l)["id"] for l in open(os.path.join(HERE, "properties.jsonl"))]

NA_REASON = {}
exec(open(os.path.join(HERE, "tools", "na.py")).read())

# rules added after later seeded rounds (appended to each check's level_note)
EXTRA_NOTES = {}
_ep = os.path.join(HERE, "tools", "extra_notes.py")
if os.path.exists(_ep):
    exec(open(_ep).read())

checks = []
for pid in ALL:
    if pid not in CLAIMED:
        continue
    text, note, technique, ref = CLAIMED[pid]
    checks.append({
        "property_id": pid,
        "quick_cmd": "./run.sh %s quick" % pid,
        "thorough_cmd": "./run.sh %s thorough" % pid,
        "evidence_file": "/verif/evidence/%s.json" % pid,
        "replay_cmd_template": "./run.sh --replay {path}",
        "engine": "scrapcheck",
        "level_claimed": {"category": "other", "text": text, "design_ref": ref},
        "level_note": note + ((" " + EXTRA_NOTES[pid]) if pid in EXTRA_NOTES else ""),
        "technique": technique,
    })

na = []
for pid in ALL:
    if pid in CLAIMED:
        continue
    na.append({"property_id": pid, "reason": NA_REASON.get(pid, "no static rule implemented for this property yet; not approximated by another technique")})

manifest = {
    "version": 1,
    "setup_cmd": "cd /verif/checker && GOFLAGS=-mod=mod GOPROXY=off GOSUMDB=off GOTOOLCHAIN=local GOWORK=off go build -o /verif/bin/scrapcheck .",
    "hooks": {
        "guard": "verif",
        "enable": "none needed: the checks are static analyses of /repo's working tree; no instrumentation is compiled in",
        "baseline_off_cmd": "cd /repo && GOFLAGS=-mod=mod GOPROXY=off go test -json -vet=off -count=1 -timeout 25m ./...",
        "source_commits": [],
        "add_only": True,
    },
    "engines": [{
        "name": "scrapcheck",
        "path": "/verif/checker",
        "serves_properties": sorted(CLAIMED.keys()),
        "kind_free_text": "repository-specific static analyser (go/packages + go/types + go/ssa + VTA call graph from golang.org/x/tools v0.29.0; YAML asset validator); never executes scrapligo code",
    }],
    "checks": checks,
    "not_applicable": na,
    "notes": "Technique family: static analysis only. Every claimed check is level 'other': it decides the structural clauses named in its level text for all inputs/schedules at once and declares the value-level clauses undecided (see DESIGN.md section 4). Known findings are listed in /verif/known_findings.txt; seeded changes and which rule catches each are in /verif/seeded and DESIGN.md.",
}

out = os.path.join(HERE, "MANIFEST.json")
json.dump(manifest, open(out, "w"), indent=1)
try:
    import jsonschema
    jsonschema.validate(manifest, json.load(open("/root/.vp/MANIFEST.schema.json")))
    print("MANIFEST.json valid: %d checks, %d not_applicable" % (len(checks), len(na)))
except ImportError:
    print("MANIFEST.json written (jsonschema not importable; not validated)")
