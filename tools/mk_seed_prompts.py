#!/usr/bin/env python3
"""Write one self-contained prompt per property for a round of seeded-change sub-agents and create their worktrees.

usage: mk_seed_prompts.py <round-number> [--unsteered]
Prompts go to /tmp/wtout<N>/prompt_<id>.txt, worktrees to /tmp/wt<N>/<id>. The prompt contains the property text only
(plus, unless --unsteered, one line per change already kept for that property so that the new ones differ in kind);
nothing from /verif's checks is given to the sub-agent.
"""
import json, os, re, subprocess, glob, sys
n = sys.argv[1]
unsteered = '--unsteered' in sys.argv
props = {}
for l in open('/verif/properties.jsonl'):
    d = json.loads(l); props[d['id']] = d
tmpl = open('/verif/tools/seed_prompt/template_C01.txt').read()
head, rest = tmpl.split("A property that this library is supposed to satisfy:\n\n", 1)
_, tail = rest.split("\n\nTASK.", 1)
tail = "\n\nTASK." + tail
def prior(pid):
    out = []
    for d in sorted(glob.glob(f'/verif/seeded/{pid}-*') + glob.glob(f'/verif/seeded/retired/{pid}-*')):
        files = sorted(set(re.findall(r'^diff --git a/(\S+)', open(d + '/patch.diff').read(), re.M)))
        title = ''
        np = d + '/notes.md'
        if os.path.exists(np):
            for l in open(np):
                if l.startswith('#'):
                    title = l.lstrip('# ').strip(); break
        if not title:
            adds = [l[1:].strip() for l in open(d + '/patch.diff') if l.startswith('+') and not l.startswith('+++') and l[1:].strip()]
            title = adds[0][:100] if adds else ''
        out.append(f"  - in {', '.join(files)}: {title[:160]}")
    return "\n".join(out)
stash = "\n\nIMPORTANT: never use `git stash` (the stash is shared between all worktrees and other people are working in parallel); to go back and forth between the clean and the changed tree save your diff to a file and use `git apply` / `git apply -R`.\n"
os.makedirs(f'/tmp/wtout{n}', exist_ok=True); os.makedirs(f'/tmp/wt{n}', exist_ok=True)
for pid, d in props.items():
    pb = f"  {pid}: {d['title']}\n  Statement: {d['statement']}\n  It must hold: {d['quantifier']['text']}\n  Why the existing tests cannot settle it: {d['why_tests_cant']}\n  Code it is anchored in: {', '.join(d['anchors']['files'])}"
    extra = stash
    if not unsteered:
        extra = ("\n\nOther people have ALREADY produced the following breaking changes for this property. Yours must be different in kind: attack other clauses, other mechanisms and other files / functions than these. Good hunting grounds that are still under-explored: code the property depends on only indirectly (small helpers in util/, constructors and defaults, option plumbing, response/ objects, logging/, constants and regular expressions, embedded asset files under assets/), rarely taken branches, error paths, and interactions between two packages:\n" + prior(pid) + stash)
    t = head.replace('/tmp/wt/C01', f'/tmp/wt{n}/{pid}').replace('/tmp/wtout/C01', f'/tmp/wtout{n}/{pid}') + "A property that this library is supposed to satisfy:\n\n" + pb + extra + tail.replace('/tmp/wtout/C01', f'/tmp/wtout{n}/{pid}')
    open(f'/tmp/wtout{n}/prompt_{pid}.txt', 'w').write(t)
    os.makedirs(f'/tmp/wtout{n}/{pid}', exist_ok=True)
    if not os.path.isdir(f'/tmp/wt{n}/{pid}'):
        subprocess.run(f"git -C /repo worktree add --detach /tmp/wt{n}/{pid} HEAD -q", shell=True, check=True)
print("prompts in", f'/tmp/wtout{n}')
