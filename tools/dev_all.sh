#!/bin/bash
# like all_quick.sh but with a private dev binary (/tmp/sc_dev), leaving bin/scrapcheck alone
export GOFLAGS=-mod=mod GOPROXY=off GOSUMDB=off GOTOOLCHAIN=local; unset GOWORK
repo=${1:-/repo}
(cd /verif/checker && go build -o /tmp/sc_dev .) || exit 2
for p in $(seq -w 1 20); do
  ( vd=$(mktemp -d); mkdir $vd/evidence; cp /verif/known_findings.txt $vd/
    out=$(/tmp/sc_dev -prop C$p -tier quick -repo $repo -verif $vd 2>&1); rc=$?
    rm -rf $vd
    if [ $rc -ne 0 ]; then echo "$out" | grep -E "violated:|undecided:|INFRA|panic" | cut -c1-300; echo "C$p exit $rc"; fi ) &
done
wait
echo "dev_all done for $repo"
