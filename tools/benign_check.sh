#!/bin/bash
# False-alarm regression: every /verif/benign/*.diff is a set of behaviour-preserving refactorings of /repo (the
# unedited suite passes with it). Apply each to a scratch worktree of /repo HEAD and run all 20 quick checks against
# that tree: nothing may be reported. The worktree is removed afterwards.
export GOFLAGS=-mod=mod GOPROXY=off GOSUMDB=off GOTOOLCHAIN=local; unset GOWORK
rc=0
for d in /verif/benign/*.diff; do
  wt=$(mktemp -d -u /tmp/benign-XXXXXX)
  git -C /repo worktree add --detach $wt HEAD -q || exit 2
  if (cd $wt && git apply $d && go build ./...); then
    out=$(/verif/tools/all_quick.sh $wt | grep -v "all_quick done")
    if [ -n "$out" ]; then echo "== $d"; echo "$out"; rc=1; else echo "ok $d"; fi
  else
    echo "SKIP $d (does not apply / build on the current tree)"
  fi
  git -C /repo worktree remove --force $wt
done
exit $rc
