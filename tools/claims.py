# claim(id, level text, level note (assumptions / trusted base + rules that run), technique, DESIGN ref)

claim("C17",
  "Decides, for every advertised platform name and every embedded definition behind it (exhaustive over the assets in the working tree), the static clauses of the property: "
  "the name resolves through the loader's own name->path mapping to a file matched by the //go:embed pattern whose platform-type equals the name; the YAML decodes into the repository's "
  "definition structs (struct tags read through go/types); privilege levels of the default section and of every merged variant form one rooted, acyclic tree with consistent links and default level; "
  "all patterns and their |-join compile under RE2; on-open/on-close steps and option blocks use only operations/options the code switches on, with the value kinds the code asserts; "
  "mergeVariant replaces exactly the section it tests. The device-model clause (navigating between levels, open/close running the steps on a device) and 'canonical prompt matches pattern' are NOT decided.",
  "Rules run: C17/name-file, schema, tree, patterns, steps, options, merge. Trusted: go/types, go list's embed resolution, gopkg.in/yaml.v3's parser (node API only), regexp/syntax as the model of regexp.MustCompile, the checker's model of yaml.v3 decoding rules.",
  "asset/code cross-validation: typed YAML walk driven by go/types struct tags + AST switch-table extraction",
  "DESIGN.md section 4, C17")

claim("C19",
  "Decides the property's configuration-space clauses for ALL option lists at once by extracting the option table from the code instead of sampling permutations: for each of the 45 driver options and 3 logging options the SSA of the returned closure gives target type, stored field(s), provenance of the stored value and return classes (ignored sentinel only on the non-matching path, never after a store; success never without the store; other errors wrap the bad-option error); "
  "each option stores exactly the setting a specification table names and reads no other setting (order independence; additive options append to themselves); every constructor (generic, network, NETCONF; platform via setDriver) applies the FULL list by a range loop, in order, to every target type, leaving the loop only on a non-ignored error (last writer wins); the platform constructor passes append(platform options, user options...); netconf.NewDriver copies each field it re-declares; every platform option name has a case producing the option it stands for from a value asserted to a type yaml.v3 can produce. "
  "Not decided: nothing value-level remains except the semantics of helper calls (ResolveFilePath, regexp.MustCompile).",
  "Rules run: C19/O1O2, O3, O4, O5, O6, O7. Trusted: go/ssa, the specification tables in checker/rule_c19.go (option -> setting, platform option name -> driver option). Assumes the constructors named in the rule are the public entry points.",
  "option-table extraction from closure SSA + constructor apply-loop analysis (range order, exit guards) + AST switch tables",
  "DESIGN.md section 4, C19")

claim("C11",
  "Decides the whole statement, under the stated assumptions, for all secrets, dialogues, retries, failures and log levels at once: an interprocedural field-based taint analysis over the SSA of every library function shows that no value derived from the login password, key passphrase or secondary secret reaches any argument of any logger method, the channel-log writer, package log or fmt.Print*; the channel write gate logs its data only when the redaction flag is false (T1), every gate call with credential-derived data passes a flag that is constant true / the gate's own flag / the HideInput of the same event (T2), every library-built interactive event carrying a credential is hidden (T3), the channel log receives only the enqueued transport bytes (T5) and platform channel.write steps forward the definition's redacted flag (T6).",
  "Rules run: C11/T1..T6. Assumes (A1) error results of functions outside the module do not embed their arguments, external methods do not stash arguments in their receiver, the device does not echo secrets, user loggers/callbacks/transports are outside the library. Context-insensitive and field-based: may only over-approximate flows (0 spurious hits on the pinned tree). Trusted: go/ssa, VTA call graph.",
  "interprocedural field-based taint analysis on SSA with a flag-guarded gate model",
  "DESIGN.md section 4, C11")

claim("C20",
  "Decides, for every interleaving of producer and consumer at once (no schedule is enumerated), the data-race, deadlock and non-blocking halves of the property and the structural half of the FIFO clause: must-held lockset dataflow shows every access to the chunk list and depth holds the queue lock (write lock for writes); the depth mailbox is a 1-slot channel primed once and every receive is followed on all paths by exactly one send with no lock acquisition or other channel operation while the token is held (fixed lock->token order: no deadlock, empty queue never blocks); every critical section that changes the list also stores depth and republishes it; Dequeue/DequeueAll return nil on zero depth before locking and never index an empty list; who-may-call keeps one producer and one consumer; Enqueue appends at the tail, Requeue builds [b]++list, Dequeue returns element 0 and keeps list[1:], DequeueAll joins then resets, depth moves by +1/+1/-1/=0. "
  "Byte-for-byte equality under stress is not measured: it is the consequence of these shape rules for the single-producer/single-consumer roles.",
  "Rules run: C20/locked, token, republish, non-blocking-empty, roles, fifo-shape. Trusted: go/ssa, Go memory model for sync.RWMutex and channels. A re-implementation of the queue with a different data layout would make fifo-shape report (the recognisers accept append/slice/bytes.Join forms only).",
  "must-held lockset dataflow + channel token discipline (path queries on SSA CFG) + shape recognisers",
  "DESIGN.md section 4, C20")
