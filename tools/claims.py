# claim(id, level text, level note (assumptions / trusted base + rules that run), technique, DESIGN ref)

claim("C17",
  "Decides, for every advertised platform name and every embedded definition behind it (exhaustive over the assets in the working tree), the static clauses of the property: "
  "the name resolves through the loader's own name->path mapping to a file matched by the //go:embed pattern whose platform-type equals the name; the YAML decodes into the repository's "
  "definition structs (struct tags read through go/types); privilege levels of the default section and of every merged variant form one rooted, acyclic tree with consistent links and default level; "
  "all patterns and their |-join compile under RE2; on-open/on-close steps and option blocks use only operations/options the code switches on, with the value kinds the code asserts; "
  "mergeVariant replaces exactly the section it tests. The device-model clause (navigating between levels, open/close running the steps on a device) and 'canonical prompt matches pattern' are NOT decided.",
  "Rules run: C17/name-file, schema, tree, patterns, steps, options, merge. Trusted: go/types, go list's embed resolution, gopkg.in/yaml.v3's parser (node API only), regexp/syntax as the model of regexp.MustCompile, the checker's model of yaml.v3 decoding rules.",
  "asset/code cross-validation: typed YAML walk driven by go/types struct tags + AST switch-table extraction",
  "DESIGN.md section 4, C17")
