# Rules added after the seventh seeded round (see DESIGN.md section 4); appended to level_note by manifest.py.
EXTRA_NOTES.update({
 "C01": "Round 7: C01/file-lines (the from-file variants get one command per line).",
 "C02": "Round 7: C02/skip-only-identified (the chunk decoder steps over a single byte only where it was compared equal to a framing constant).",
 "C03": "Round 7: C03/found-transport-pipe, C03/fresh-operation.",
 "C04": "Round 7: C04/send-delegates (the remaining Send* methods of the network driver only delegate to the five analysed ones).",
 "C05": "Round 7: C05/poll-interval (sleeps in polling loops last a configured or constant delay); error-class tables pair %w with its operand.",
 "C06": "Round 7: C06/no-blind-consumer, C06/found-lock-paired.",
 "C07": "Round 7: C07/waitgroup-add, C07/found-priv-bounded.",
 "C08": "Round 7: C08/operation-constructed, C08/found-netconf-reader-lifecycle.",
 "C09": "Round 7: C09/password-prompt-anchored, C09/found-driver-options.",
 "C10": "Round 7: C10/password-prompt-anchored, C10/found-platform-options.",
 "C11": "Round 7: C11/password-prompt-anchored, C11/T7 (a platform step that may be written redacted never reaches a log).",
 "C12": "Round 7: C12/found-ansi.",
 "C14": "Round 7: C14/system-files-first-wins, C14/found-escalation-secret.",
 "C15": "Round 7: C15/single-dial.",
 "C16": "Round 7: C16/child-lifetime; C16/wrapper also covers Transport.Open and forbids goroutines in the wrapper.",
 "C17": "Round 7: C17/search-window.",
 "C18": "Round 7: C18/no-private-read, C18/found-ansi.",
 "C19": "Round 7: C19/ignored-first, C19/constructors-relay.",
 "C20": "Round 7: C20/readall-drains.",
})

# Rules added after the eighth seeded round.
for _k, _v in {
 "C01": "Round 8: C01/strip-whole, C01/found-multi-response.",
 "C02": "Round 8: C02/mark-only-on-marker.",
 "C03": "Round 8: C03/settings-writers, C03/no-foreign-append.",
 "C04": "Round 8: C04/get-prompt-passthrough, C04/level-cache-writers.",
 "C05": "Round 8: C05/found-driver-options.",
 "C07": "Round 8: C07/globals-immutable, waitgroup-add rejects a package-level WaitGroup, C07/found-netconf-reader-lifecycle.",
 "C08": "Round 8: the builder's buildPayload call dominates every message-returning path, C08/rpc-no-consume.",
 "C09": "Round 8: C09/found-search-window, C09/found-transport-pipe.",
 "C11": "Round 8: C11/log-args-untransformed, C11/found-platform-options.",
 "C12": "Round 8: C12/pattern-not-overwritten.",
 "C13": "Round 8: C13/found-search-window, C13/found-driver-options.",
 "C14": "Round 8: C14/system rejects connection-sharing / verification-bypassing ssh options.",
 "C16": "Round 8: C16/orderly-close, C16/found-eof-chain.",
 "C17": "Round 8: C17/found-interactive, C17/always-fetches-prompt.",
 "C18": "Round 8: C18/found-read-loop.",
 "C19": "Round 8: C19/settings-writers, C19/definition-decoder.",
 "C20": "Round 8: C20/waitgroup-local.",
}.items():
    EXTRA_NOTES[_k] = (EXTRA_NOTES.get(_k, "") + " " + _v).strip()

# Rules added after the ninth and tenth seeded rounds.
for _k, _v in {
 "C01": "Round 10: C01/ansi-specimens (the escape-sequence pattern accepts fifteen specimen control sequences whole; membership of constants in the language of a constant, no library code runs).",
 "C02": "Round 10: C02/chunk-whole (the chunk loop appends a plain sub-slice of the received data).",
 "C03": "Round 10: C03/input-immutable (a response's Input is written by its constructor only).",
 "C04": "Round 10: C04/level-cache-writers also rejects resetting the cached level outside the function that determines it.",
 "C05": "Round 10: C05/found-netconf-reader, C05/get-prompt-once.",
 "C06": "Round 10: C06/waits-poll (read-until loops only sleep between polls of Channel.Read), C06/patterns-compile, C06/repeat-guarded.",
 "C07": "Round 9: C07/child-stored. Round 10: C07/closed-result-nil.",
 "C08": "Round 10: C08/own-id requires the filing decision to depend on the message-id match only; C08/no-shared-defaults.",
 "C10": "Round 10: C10/patterns-compile (every constant pattern compiled lazily parses under RE2).",
 "C12": "Round 10: C12/echo-error-surfaces (the propagate obligations of the send-input / interactive workers).",
 "C13": "Round 10: C13/settings-writers (generic driver).",
 "C14": "Round 10: C14/password-prompt-anchored.",
 "C16": "Round 9: C16/child-stored. Round 10: C16/found-queue, C16/found-read-loop.",
 "C17": "Round 9: C17/loopvar-escapes. Round 10: C17/embedded-first (an advertised name reaches the embedded lookup first and as given), C17/found-ansi.",
 "C18": "Round 10: C18/found-queue, C18/deadline.",
 "C19": "Round 10: C19/no-shared-defaults; settings-writers rejects a write of a setting inside a Close method and accepts initialisation of a freshly allocated object, default filling of the call's own options object, and helpers only constructors call.",
 "C20": "Round 10: C20/no-reentrant-lock (must-lockset: no same-receiver callee re-acquires a held lock).",
}.items():
    EXTRA_NOTES[_k] = (EXTRA_NOTES.get(_k, "") + " " + _v).strip()

# Rules added after the eleventh seeded round.
for _k, _v in {
 "C01": "Round 11: C01/match-every-chunk (must-pass-through: after every chunk a read-until loop appended, the accumulation is handed to the matcher before the next read), C01/op-options-applied.",
 "C02": "Round 11: C02/eom-pattern-shape (regexp/syntax: the 1.1 end-of-chunks pattern is bounded by line boundaries on both sides of ##, the 1.0 pattern requires the whole literal), C02/size-as-declared (the chunk appended is data[cursor:cursor+size] with size the converted header value itself).",
 "C04": "Round 11: C04/level-detection also requires the candidate list to be returned as collected (no second pass that drops or adds levels); C04/found-read-until.",
 "C05": "Round 11: C05/closed-result-zero (a worker that may close its result channel without sending does so only once the spawner's own cancel-only context is over, or the spawner examines the value), C05/netconf-deadline-resolved, C05/found-read-until.",
 "C06": "Round 11: C06/pipe-writer-closed (no in-process pipe whose write end nobody closes), C06/found-chunk-decoder.",
 "C07": "Round 11: C07/close-reaches-transport also demands that Transport.Close reaches Implementation.Close on every path, whatever the implementation says about its liveness.",
 "C08": "Round 11: C08/found-read-returns-dequeued.",
 "C09": "Round 11: C09/deadline-resolved (every deadline of the NETCONF driver takes its duration from Channel.GetTimeout: a configured 0 means the maximum for the hello exchange too).",
 "C10": "Round 11: C10/one-answer-per-pass (on the true edge of a credential prompt's match nothing but that prompt's own credential is typed before the next chunk is read); C10/cleanup-requeue also demands that the requeue depends on nothing but the bytes being there.",
 "C11": "Round 11: C11/one-answer-per-pass, C11/as-options-wiring (each on-x list of a definition reaches exactly the hook of its name).",
 "C12": "Round 11: C12/found-read-until, C12/found-transport-pipe, C12/found-get-prompt.",
 "C13": "Round 11: C13/failed-types-agree (every concrete type stored to Response.Failed is one AppendResponse asserts).",
 "C14": "Round 11: C14/error-before-use (constructors: no product of a call is used before the error that came with it was tested), C14/found-platform-fresh.",
 "C16": "Round 11: C16/no-remote-tty (the system transport never starts ssh with -t / -tt / -e / RequestTTY / EscapeChar).",
 "C17": "Round 11: C17/as-options-wiring, C17/found-transport-pipe; the priv-steps foundation now carries the returned-as-collected clause.",
 "C18": "Round 11: C18/found-response-record.",
 "C19": "Round 11: C19/error-before-use.",
}.items():
    EXTRA_NOTES[_k] = (EXTRA_NOTES.get(_k, "") + " " + _v).strip()

# Rules added after the twelfth seeded round.
for _k, _v in {
 "C01": "Round 12: (no new rule; both changes reported on first sight).",
 "C15": "Round 13: C15/negotiation-ends (restated C05/loops-cancellable for the negotiation loop).",
 "C02": "Round 12: the netconf-reader foundation now carries 'the filing of a reply does not depend on another id in the message'.",
 "C03": "Round 12: C03/framed-only-through-sendrpc (who-may-write: the framed bytes of a serialized request reach the channel through sendRPC only).",
 "C04": "Round 13: C04/variant-merge (restated C17/merge). Round 12: C04/onx-send-command (a platform hook's send-command step is (*network.Driver).SendCommand).",
 "C05": "Round 13: C05/deadline-every-pass (every cycle of a read-until loop from one Channel.Read to the next passes the context check), C05/id-allocation (restated). Round 12: C05/closed-result-zero is path-based (no send-less exit of a result-closing worker is reachable without a context-over edge; one-level helper verdicts followed); C05/found-send-input, C05/found-get-prompt.",
 "C06": "Round 13: C06/found-open-cleanup. Round 12: C06/close-callers (who-may-call: Channel.Close is called by Open and Close methods only).",
 "C07": "Round 12: C07/reader-released (restated C06/reader: Channel.Read looks at the error channel before it dequeues), C07/close-callers.",
 "C08": "Round 12: C08/own-id also rejects a filing that is conditional on a subscription id; C08/store-unconditional (storeMessage / storeSubscriptionMessage file on every path); C08/closed-result-zero; C08/submatch-guarded (found G23).",
 "C09": "Round 12: C09/hello-delimiter-installed (netconf.NewDriver stores the end-of-message delimiter behind the option loop on every success path); C09/submatch-guarded.",
 "C10": "Round 12: C10/cleanup-requeue also demands that the bytes of every Authenticate* call of Open merge into the requeued value; C10/found-telnet-negotiation, C10/found-driver-options.",
 "C11": "Round 12: C11/found-transport-pipe.",
 "C12": "Round 12: C12/events-not-mutated (no store into a SendInteractiveEvent the function did not build). C12/onx-send-command (a hook's send-command passes no per-operation option of its own: no eager send that leaves a prompt unread).",
 "C13": "Round 12: C13/post-process (restated), C13/found-ansi.",
 "C14": "Round 12: C14/key-errors-surface (the failing edge of reading / parsing the configured private key only logs and returns the error, in both ssh transports).",
 "C16": "Round 12: C16/found-netconf-reader, C16/read-error-delivered (restated C06/propagate for the read loop).",
 "C17": "Round 12: C17/merge also rejects a merge that is conditional on another section of the variant; C17/onx-send-command, C17/float-scaled-first, C17/globals-immutable.",
 "C18": "Round 12: C18/found-transport-pipe.",
 "C19": "Round 12: C19/no-cutset-for-prefix (no Trim/TrimLeft/TrimRight with a multi-character non-blank constant set), C19/float-scaled-first (library-wide: no float converted to an integer type and then multiplied by a constant), C19/verdict-in-loop-only (the error an option returned is never tested again behind the apply loop).",
 "C20": "Round 12: C20/found-open-cleanup.",
}.items():
    EXTRA_NOTES[_k] = (EXTRA_NOTES.get(_k, "") + " " + _v).strip()
