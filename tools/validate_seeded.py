#!/usr/bin/env python3
"""Validate an independently seeded change and run the checks against it.

usage: validate_seeded.py <src_dir> <seed_id> <property> <demo_pkg_dir> [--run REGEX] [--race] [--timeout S]

 src_dir       directory holding patch.diff, the demonstration (demo_test.go or *_test.go / main.go) and notes.md
 seed_id       name under /verif/seeded/
 demo_pkg_dir  package directory (relative to the repo root) the demo test file is copied into

Steps (all in a scratch git worktree outside /repo and /verif, removed at the end):
 1. demo passes on the unmodified tree
 2. patch applies, module builds, demo fails
 3. the unedited suite passes with the patch
Then every check's quick tier is run against that worktree (patch applied).
Writes /verif/seeded/<seed_id>/{patch.diff, demo files, notes.md, meta.json}.
"""
import json, os, shutil, subprocess, sys, tempfile, time, glob, concurrent.futures

ENV = dict(os.environ, GOFLAGS="-mod=mod", GOPROXY="off", GOSUMDB="off", GOTOOLCHAIN="local")
ENV.pop("GOWORK", None)

def sh(cmd, cwd=None, timeout=900):
    p = subprocess.run(cmd, shell=True, cwd=cwd, env=ENV, capture_output=True, text=True, timeout=timeout)
    return p.returncode, (p.stdout + p.stderr)

def main():
    a = sys.argv[1:]
    src, seed, prop, pkgdir = a[0], a[1], a[2], a[3]
    run = "."
    race = ""
    tmo = 120
    i = 4
    while i < len(a):
        if a[i] == "--run":
            run = a[i + 1]; i += 2
        elif a[i] == "--race":
            race = "-race"; i += 1
        elif a[i] == "--timeout":
            tmo = int(a[i + 1]); i += 2
        else:
            i += 1
    meta = {"seed": seed, "property": prop, "source": "fresh sub-agent given only the property text and a scratch worktree", "ran": []}
    wt = tempfile.mkdtemp(prefix="seedval-")
    os.rmdir(wt)
    rc, out = sh(f"git -C /repo worktree add --detach {wt} HEAD")
    assert rc == 0, out
    try:
        demos = [f for f in glob.glob(os.path.join(src, "*_test.go"))]
        os.makedirs(os.path.join(wt, pkgdir), exist_ok=True)
        for d in demos:
            shutil.copy(d, os.path.join(wt, pkgdir, "zz_" + os.path.basename(d)))
        democmd = f"go test {race} -count=1 -timeout {tmo}s -run '{run}' ./{pkgdir}/"
        rc, out = sh(democmd, cwd=wt, timeout=tmo + 120)
        meta["demo_on_clean_tree"] = "pass" if rc == 0 else "FAIL"
        meta["ran"].append(democmd + " (clean tree): rc=%d" % rc)
        rc, out = sh(f"git apply {os.path.join(src, 'patch.diff')}", cwd=wt)
        meta["patch_applies"] = rc == 0
        if rc != 0:
            meta["error"] = out[-400:]
        rc, out = sh("go build ./...", cwd=wt)
        meta["builds"] = rc == 0
        rc, out = sh(democmd, cwd=wt, timeout=tmo + 120)
        meta["demo_with_change"] = "fail" if rc != 0 else "PASS(!)"
        meta["demo_failure_excerpt"] = "\n".join([l for l in out.splitlines() if "FAIL" in l or "panic" in l or "Error" in l or "got" in l][:6])
        meta["ran"].append(democmd + " (with change): rc=%d" % rc)
        for d in demos:
            os.remove(os.path.join(wt, pkgdir, "zz_" + os.path.basename(d)))
        suite = "go test -vet=off -count=1 -timeout 20m $(go list ./... | grep -v /transport$) && flock /tmp/scrapligo-transport.lock go test -vet=off -count=1 ./transport/"
        rc, out = sh(suite, cwd=wt, timeout=1500)
        meta["suite_with_change"] = "pass" if rc == 0 else "FAIL"
        if rc != 0:
            meta["suite_excerpt"] = "\n".join([l for l in out.splitlines() if "FAIL" in l][:8])
        meta["ran"].append("unedited suite with the change: rc=%d" % rc)
        # the checks, on the scratch worktree with the change applied (same verdicts as on /repo itself; lets several
        # validations run side by side)
        results = {}
        if meta.get("patch_applies") and meta.get("builds"):
            props = ["C%02d" % k for k in range(1, 21)]
            def runp(p):
                vd = tempfile.mkdtemp(prefix="seedchk-")
                os.makedirs(os.path.join(vd, "evidence"))
                shutil.copy("/verif/known_findings.txt", vd)
                r, o = sh(f"/verif/bin/scrapcheck -prop {p} -tier quick -repo {wt} -verif {vd}", timeout=300)
                shutil.rmtree(vd, ignore_errors=True)
                rules = sorted({l.split("[")[-1].split(" @ ")[0] for l in o.splitlines() if (": violated:" in l or ": undecided:" in l) and "[" in l})
                first = next((l for l in o.splitlines() if ": violated:" in l or ": undecided:" in l), "")
                return p, r, rules, first[:400].replace(wt + "/", "")
            with concurrent.futures.ThreadPoolExecutor(max_workers=6) as ex:
                for p, r, rules, first in ex.map(runp, props):
                    if r != 0:
                        results[p] = {"exit": r, "rules": rules, "first_report": first}
    finally:
        sh(f"git -C /repo worktree remove --force {wt}")
    meta["checks_reporting"] = results
    meta["detected_by_own_property_check"] = prop in results
    meta["detected_by_any_check"] = len(results) > 0
    dst = os.path.join("/verif/seeded", seed)
    os.makedirs(dst, exist_ok=True)
    for f in os.listdir(src):
        if os.path.isfile(os.path.join(src, f)):
            shutil.copy(os.path.join(src, f), dst)
    meta["demo_package_dir"] = pkgdir
    json.dump(meta, open(os.path.join(dst, "meta.json"), "w"), indent=1)
    ok = meta.get("demo_on_clean_tree") == "pass" and meta.get("demo_with_change") == "fail" and meta.get("suite_with_change") == "pass" and meta.get("builds")
    print(seed, "VALID" if ok else "INVALID", "| own check:", "DETECTED" if prop in results else "missed", "| reporting:", {k: v["rules"] for k, v in results.items()})

main()
