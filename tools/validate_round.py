#!/usr/bin/env python3
"""Validate every change a round of sub-agents produced: usage validate_round.py <N> [ids...]
Looks in /tmp/wtout<N>/<prop>/m{1,2}; derives the demo package directory from the demo's package clause or the
notes ("copy into `dir/`"); runs tools/validate_seeded.py (sequentially: it patches /repo under a lock) with -race when
the notes say the race detector is needed; prints one summary line per change."""
import os, re, glob, sys, subprocess, json
n = sys.argv[1]
import concurrent.futures
jobs = 1
args = sys.argv[2:]
if '-j' in args:
    i = args.index('-j'); jobs = int(args[i+1]); del args[i:i+2]
only = set(args)
m = {'generic': 'driver/generic', 'netconf': 'driver/netconf', 'network': 'driver/network', 'channel': 'channel', 'transport': 'transport',
     'platform': 'platform', 'util': 'util', 'response': 'response', 'options': 'driver/options', 'opoptions': 'driver/opoptions', 'logging': 'logging'}
done = set(os.listdir('/verif/seeded'))
work = []
for d in sorted(os.listdir(f'/tmp/wtout{n}')):
    if not re.match(r'C\d\d$', d):
        continue
    for mm in ('m1', 'm2'):
        work.append((d, mm))

def one(dm):
    d, mm = dm
    p = f'/tmp/wtout{n}/{d}/{mm}'
    sid = f'{d}-r{n}{mm}'
    if only and sid not in only:
        return None
    if sid in done and not only:
        return None
    if not os.path.isfile(p + '/patch.diff'):
        return f'{sid} NO PATCH'
    fs = glob.glob(p + '/*_test.go')
    if len(fs) != 1:
        return f'{sid} MANUAL: demo files {fs}'
    s = open(fs[0]).read()
    tests = re.findall(r'^func (Test\w+)', s, re.M)
    pkg = re.search(r'^package (\w+)', s, re.M).group(1)
    base = pkg[:-5] if pkg.endswith('_test') else pkg
    dirn = m.get(base)
    notes = open(p + '/notes.md').read() if os.path.exists(p + '/notes.md') else ''
    if dirn is None:
        dirn = base
    race = ['--race'] if re.search(r'-race', notes) and re.search(r'only.{0,60}-race|without `?-race`? .{0,40}pass|race detector', notes) and d in ('C07', 'C20') else []
    cmd = ['python3', '/verif/tools/validate_seeded.py', p, sid, d, dirn, '--run', '^(' + '|'.join(tests) + ')$', '--timeout', '240'] + race
    r = subprocess.run(cmd, capture_output=True, text=True)
    mp = f'/verif/seeded/{sid}/meta.json'
    if os.path.exists(mp):
        me = json.load(open(mp))
        return ' '.join([sid, dirn, 'clean=' + str(me.get('demo_on_clean_tree')), 'changed=' + str(me.get('demo_with_change')), 'suite=' + str(me.get('suite_with_change')),
              'own=' + str(me.get('detected_by_own_property_check')), 'by=' + ','.join(sorted((me.get('checks_reporting') or {}).keys()))])
    return f'{sid} NO META {r.stdout[-300:]} {r.stderr[-300:]}'

with concurrent.futures.ThreadPoolExecutor(max_workers=jobs) as ex:
    for line in ex.map(one, work):
        if line:
            print(line, flush=True)
