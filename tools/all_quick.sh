#!/bin/bash
# run every check's quick tier against a tree (default /repo) with private evidence dirs; print only failures + a summary
export GOFLAGS=-mod=mod GOPROXY=off GOSUMDB=off GOTOOLCHAIN=local; unset GOWORK
repo=${1:-/repo}
cd /verif && (cd checker && go build -o ../bin/scrapcheck .) || exit 2
fail=0
for p in $(seq -w 1 20); do
  ( vd=$(mktemp -d); mkdir $vd/evidence; cp known_findings.txt $vd/
    out=$(bin/scrapcheck -prop C$p -tier quick -repo $repo -verif $vd 2>&1); rc=$?
    rm -rf $vd
    if [ $rc -ne 0 ]; then echo "$out" | grep -E "violated:|undecided:|INFRA|panic" | cut -c1-300; echo "C$p exit $rc"; fi ) &
done
wait
echo "all_quick done for $repo"
