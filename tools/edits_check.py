#!/usr/bin/env python3
"""Fast false-alarm probe over single behaviour-preserving edits: for each <dir>/<NN>/patch.diff apply to a scratch
worktree of /repo, build, run all 20 quick checks with a private binary; print alarms. usage: edits_check.py <dir> [ids...] [-j N]"""
import os, sys, subprocess, tempfile, shutil, concurrent.futures
ENV = dict(os.environ, GOFLAGS="-mod=mod", GOPROXY="off", GOSUMDB="off", GOTOOLCHAIN="local"); ENV.pop("GOWORK", None)
def sh(cmd, cwd=None, timeout=900):
    p = subprocess.run(cmd, shell=True, cwd=cwd, env=ENV, capture_output=True, text=True, timeout=timeout)
    return p.returncode, p.stdout + p.stderr
args = sys.argv[1:]
jobs = 3
if '-j' in args:
    i = args.index('-j'); jobs = int(args[i+1]); del args[i:i+2]
out = args[0]; only = set(args[1:])
rc, o = sh("cd /verif/checker && go build -o /tmp/sc_ed .")
assert rc == 0, o
def one(d):
    p = os.path.join(out, d, "patch.diff")
    wt = tempfile.mkdtemp(prefix="edchk-"); os.rmdir(wt)
    rc, o = sh(f"git -C /repo worktree add --detach {wt} HEAD"); assert rc == 0, o
    res = []
    try:
        rc, o = sh(f"git apply {p}", cwd=wt)
        if rc != 0:
            return d, ["PATCH DOES NOT APPLY " + o[-200:]]
        rc, o = sh("go build ./...", cwd=wt)
        if rc != 0:
            return d, ["BUILD FAILS " + o[-300:]]
        # one process for all 20 properties (scrapcheck -matrix: same rules, one load of the tree)
        r, oo = sh(f"/tmp/sc_ed -matrix -repo {wt} -verif /verif", timeout=600)
        if "MATRIX done" not in oo:
            res.append("MATRIX RUN FAILED " + oo[-300:])
        seen = set()
        for l in oo.splitlines():
            if not l.startswith("MATRIX C") or (": violated:" not in l and ": undecided:" not in l):
                continue
            _, pid, rest = l.split(" ", 2)
            key = rest.split("[")[-1].split(" @ ")[-1][:60]
            if key in seen: continue
            seen.add(key); res.append(pid + " " + rest[:300])
    finally:
        sh(f"git -C /repo worktree remove --force {wt}")
    return d, res
ds = [d for d in sorted(os.listdir(out)) if os.path.isfile(os.path.join(out, d, "patch.diff")) and (not only or d in only)]
with concurrent.futures.ThreadPoolExecutor(max_workers=jobs) as ex:
    for d, res in ex.map(one, ds):
        note = ""
        np = os.path.join(out, d, "notes.md")
        if os.path.exists(np): note = open(np).read().strip().splitlines()[0][:110]
        print(("ALARM " if res else "ok    ") + d + "  " + note, flush=True)
        for l in res: print("      " + l, flush=True)
