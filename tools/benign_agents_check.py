#!/usr/bin/env python3
"""For each <dir>/<id>/patch.diff produced by a refactoring sub-agent: apply it to a scratch worktree of /repo, build,
run the unedited suite, run all 20 quick checks against that tree (-repo), print every alarm. usage: <outdir> [ids...]"""
import os, sys, subprocess, tempfile, shutil, concurrent.futures
ENV = dict(os.environ, GOFLAGS="-mod=mod", GOPROXY="off", GOSUMDB="off", GOTOOLCHAIN="local"); ENV.pop("GOWORK", None)
def sh(cmd, cwd=None, timeout=1500):
    p = subprocess.run(cmd, shell=True, cwd=cwd, env=ENV, capture_output=True, text=True, timeout=timeout)
    return p.returncode, p.stdout + p.stderr
out = sys.argv[1]; only = set(sys.argv[2:])
rc, o = sh("cd /verif/checker && go build -o /tmp/sc_bn .")
assert rc == 0, o
for d in sorted(os.listdir(out)):
    p = os.path.join(out, d, "patch.diff")
    if not os.path.isfile(p) or (only and d not in only):
        continue
    wt = tempfile.mkdtemp(prefix="bnchk-"); os.rmdir(wt)
    rc, o = sh(f"git -C /repo worktree add --detach {wt} HEAD"); assert rc == 0, o
    try:
        rc, o = sh(f"git apply {p}", cwd=wt)
        if rc != 0:
            print(d, "PATCH DOES NOT APPLY", o[-200:]); continue
        rc, o = sh("go build ./... && go vet ./...", cwd=wt)
        if rc != 0:
            print(d, "BUILD/VET FAILS", o[-300:]); continue
        rc, o = sh("go test -vet=off -count=1 $(go list ./... | grep -v /transport$) && flock /tmp/scrapligo-transport.lock go test -vet=off -count=1 ./transport/", cwd=wt)
        suite = "suite ok" if rc == 0 else "SUITE FAILS: " + " | ".join(l for l in o.splitlines() if "FAIL" in l)[:300]
        def runp(i):
            pid = "C%02d" % i
            vd = tempfile.mkdtemp(prefix="bnv-"); os.makedirs(vd + "/evidence"); shutil.copy("/verif/known_findings.txt", vd)
            r, oo = sh(f"/tmp/sc_bn -prop {pid} -tier quick -repo {wt} -verif {vd}", timeout=300)
            shutil.rmtree(vd, ignore_errors=True)
            lines = [l[:330] for l in oo.splitlines() if ": violated:" in l or ": undecided:" in l or "panick" in l]
            return pid, r, lines
        alarms = []
        with concurrent.futures.ThreadPoolExecutor(max_workers=10) as ex:
            for pid, r, lines in ex.map(runp, range(1, 21)):
                if r != 0:
                    alarms.append((pid, lines))
        nfiles = sum(1 for l in open(p) if l.startswith("diff --git"))
        print(f"== {d}: {nfiles} files, {suite}, {len(alarms)} checks alarm", flush=True)
        seen = set()
        for pid, lines in alarms:
            for l in lines:
                key = l.split("[")[-1].split(" @ ")[-1][:80] + l.split(":")[0]
                if key in seen:
                    continue
                seen.add(key)
                print("   ", pid, l, flush=True)
    finally:
        sh(f"git -C /repo worktree remove --force {wt}")
