#!/bin/bash
# build the dev binary, apply a seeded change (or any patch file) to a scratch worktree, run the given properties' quick tier on it
export GOFLAGS=-mod=mod GOPROXY=off GOSUMDB=off GOTOOLCHAIN=local; unset GOWORK
seed=$1; shift
patch=/verif/seeded/$seed/patch.diff; [ -f "$patch" ] || patch=$seed
(cd /verif/checker && go build -o /tmp/sc_dev .) || exit 2
wt=$(mktemp -d -u /tmp/ds-XXXXXX)
git -C /repo worktree add --detach $wt HEAD -q || exit 2
(cd $wt && git apply $patch) || echo "PATCH DOES NOT APPLY"
/verif/tools/dev_quick.sh $wt "$@"
git -C /repo worktree remove --force $wt
