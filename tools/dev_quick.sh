#!/bin/bash
# run quick tier of the given properties with the dev binary against a repo (default /repo), show only new-rule lines
export GOFLAGS=-mod=mod GOPROXY=off GOSUMDB=off GOTOOLCHAIN=local; unset GOWORK
repo=$1; shift
for p in "$@"; do
  vd=$(mktemp -d); mkdir $vd/evidence; cp /verif/known_findings.txt $vd/
  /tmp/sc_dev -prop $p -tier quick -repo $repo -verif $vd 2>&1 | grep -E "violated:|undecided:|INFRA|panic|quick:" | cut -c1-420
  rm -rf $vd
done
