#!/bin/sh
# usage: ./run.sh <property-id> [quick|thorough]
#        ./run.sh --replay <replay-file>
# Always analyses /repo's current working tree; rebuilds the checker binary
# when it is missing or older than its sources.
cd "$(dirname "$0")" || exit 2
export GOFLAGS=-mod=mod GOPROXY=off GOSUMDB=off GOTOOLCHAIN=local
unset GOWORK
REPO="${VERIF_REPO:-/repo}"
need_build=0
if [ ! -x bin/scrapcheck ]; then need_build=1
elif [ -n "$(find checker -name '*.go' -newer bin/scrapcheck -print -quit 2>/dev/null)" ]; then need_build=1
fi
if [ "$need_build" = 1 ]; then
  mkdir -p bin
  (cd checker && go build -o ../bin/scrapcheck .) || { echo "INFRA: checker build failed"; exit 2; }
fi
mkdir -p evidence/replay
if [ "$1" = "--replay" ]; then
  prop=$(python3 -c "import json,sys;print(json.load(open(sys.argv[1]))['property'])" "$2") || exit 2
  exec bin/scrapcheck -prop "$prop" -tier quick -repo "$REPO" -verif "$(pwd)"
fi
tier="${2:-${VERIF_TIER:-quick}}"
exec bin/scrapcheck -prop "$1" -tier "$tier" -repo "$REPO" -verif "$(pwd)"
